import argparse
import os
import subprocess
import sys


def main():
    ap = argparse.ArgumentParser()
    ap.add_argument('prop')
    ap.add_argument('--tier', default=os.environ.get('VERIF_TIER', 'quick'), choices=['quick', 'thorough'])
    ap.add_argument('--replay')
    a = ap.parse_args()
    if a.replay:
        sys.exit(subprocess.run([sys.executable, '-m', 'engine.replay', a.replay]).returncode)
    from engine.registry import CHECKS
    from engine import symrun
    if a.prop not in CHECKS:
        print(f'no check registered for {a.prop}')
        sys.exit(3)
    spec = dict(CHECKS[a.prop])
    sys.exit(symrun.check_property(a.prop, a.tier, spec))


if __name__ == '__main__':
    main()
