"""Run context shared by the symbolic worker and the concrete replayer.

A harness is a plain function ``run(shape, args, ctx)`` that builds real
simprocesd objects from /repo and drives them.  ``args`` maps names to ints
that are symbolic (CrossHair ``SymbolicInt``) in the worker and concrete in the
replayer; ``ctx`` supplies the tie-break weights (stub S1), the goal/coverage
bookkeeping and the ``fail`` primitive.  Nothing in here imports CrossHair
unless ``symbolic`` is True, so replays run on a plain interpreter.
"""
import contextlib


class PropertyViolation(Exception):
    """Raised by a monitor: the property's own assertion failed on this path."""

    def __init__(self, label, detail=''):
        super().__init__(label)
        self.label = label
        self.detail = detail


class Truncated(Exception):
    """The event budget MAX_EVENTS of the harness was reached (bound too small)."""


class RealCodeError(Exception):
    """An unexpected exception escaped the code under test."""

    def __init__(self, where, exc):
        super().__init__(f'{where}: {type(exc).__name__}: {exc}')
        self.where = where
        self.exc = exc


class _Popper:
    """Concrete S1: hands out the recorded weights, then fresh distinct ones."""

    def __init__(self, weights):
        self._w = list(weights)
        self._i = 0
        self.handed = []

    def random(self):
        if self._i < len(self._w):
            v = self._w[self._i]
        else:
            v = (max(self._w + self.handed) if (self._w or self.handed) else 0) + 1
        self._i += 1
        self.handed.append(v)
        return v


class _SymWeights:
    """Symbolic S1: a fresh z3 Int per call; 'distinct' adds pairwise !=."""

    def __init__(self, mode):
        self.mode = mode  # 'distinct' | 'free' | 'fifo'
        self.handed = []

    def random(self):
        from crosshair.statespace import context_statespace
        from crosshair.tracers import NoTracing
        from crosshair.libimpl.builtinslib import SymbolicInt
        import z3
        with NoTracing():
            if self.mode == 'fifo':
                v = len(self.handed)
                self.handed.append(v)
                return v
            space = context_statespace()
            w = SymbolicInt('tb' + space.uniq(), int)
            if self.mode == 'distinct':
                for p in self.handed:
                    space.add(w.var != p.var)
            elif self.mode == 'free':
                # equal weights allowed (4th comparison level reachable), but keep
                # the range small so that models stay readable
                space.add(z3.And(w.var >= 0, w.var <= 10 ** 6))
            self.handed.append(w)
            return w


class Ctx:
    def __init__(self, symbolic, weights_mode='distinct', weights=None):
        self.symbolic = symbolic
        self.goals = set()
        self.counters = {'events': 0, 'checks': 0, 'ops': 0}
        self.notes = []
        if symbolic:
            self.rng = _SymWeights(weights_mode)
        else:
            self.rng = _Popper(weights or [])

    # -- monitors ---------------------------------------------------------
    def fail(self, label, detail=''):
        raise PropertyViolation(label, detail)

    def require(self, cond, label, detail=''):
        self.counters['checks'] += 1
        if not cond:
            raise PropertyViolation(label, detail)

    def goal(self, name):
        self.goals.add(name)

    def count(self, key, n=1):
        self.counters[key] = self.counters.get(key, 0) + n

    # -- symbolic helpers ---------------------------------------------------
    def notrace(self):
        if self.symbolic:
            from crosshair.tracers import NoTracing
            return NoTracing()
        return contextlib.nullcontext()

    def possible(self, cond):
        """Is ``cond`` satisfiable on the current path?  Does not fork the search.
        Concretely: just bool(cond)."""
        if not self.symbolic:
            return bool(cond)
        from crosshair.statespace import context_statespace
        from crosshair.tracers import NoTracing
        with NoTracing():
            if type(cond) is bool:
                return cond
            space = context_statespace()
            self.counters['checks'] += 1
            return space.is_possible(cond)

    def require_valid(self, cond, label, detail=''):
        """Fail iff ``not cond`` is satisfiable on the current path (one solver
        query, no fork on the holding side)."""
        self.counters['checks'] += 1
        if not self.symbolic:
            if not cond:
                raise PropertyViolation(label, detail)
            return
        from crosshair.tracers import NoTracing
        with NoTracing():
            concrete = type(cond) is bool
        if concrete:
            if not cond:
                raise PropertyViolation(label, detail)
            return
        # fork only if the violating side is satisfiable: `if not cond` lets
        # CrossHair pick the violating branch when feasible, so the model it
        # realises is a counterexample.
        if not cond:
            raise PropertyViolation(label, detail)
