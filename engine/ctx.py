"""Run context shared by the symbolic worker and the concrete replayer.

A harness is a plain function ``run(shape, args, ctx)`` that builds real
simprocesd objects from /repo and drives them.  ``args`` maps names to ints
that are symbolic (CrossHair ``SymbolicInt``) in the worker and concrete in the
replayer; ``ctx`` supplies the tie-break weights (stub S1), the goal/coverage
bookkeeping and the ``fail`` primitive.  Nothing in here imports CrossHair
unless ``symbolic`` is True, so replays run on a plain interpreter.
"""
import contextlib


class PropertyViolation(Exception):
    """Raised by a monitor: the property's own assertion failed on this path."""

    def __init__(self, label, detail=''):
        super().__init__(label)
        self.label = label
        self.detail = detail


class Truncated(Exception):
    """The event budget MAX_EVENTS of the harness was reached (bound too small)."""


class RealCodeError(Exception):
    """An unexpected exception escaped the code under test."""

    def __init__(self, where, exc):
        super().__init__(f'{where}: {type(exc).__name__}: {exc}')
        self.where = where
        self.exc = exc


class _Popper:
    """Concrete S1: hands out the recorded weights, then fresh distinct ones."""

    def __init__(self, weights):
        self._w = list(weights)
        self._i = 0
        self.handed = []

    def random(self):
        if self._i < len(self._w):
            v = self._w[self._i]
        else:
            v = (max(self._w + self.handed) if (self._w or self.handed) else 0) + 1
        self._i += 1
        self.handed.append(v)
        return v


class _SymWeights:
    """Symbolic S1: a fresh z3 Int per call; 'distinct' adds pairwise !=."""

    def __init__(self, mode):
        self.mode = mode  # 'distinct' | 'free' | 'fifo'
        self.handed = []

    def random(self):
        from crosshair.statespace import context_statespace
        from crosshair.tracers import NoTracing
        from crosshair.libimpl.builtinslib import SymbolicInt
        import z3
        with NoTracing():
            if self.mode == 'fifo':
                v = len(self.handed)
                self.handed.append(v)
                return v
            space = context_statespace()
            w = SymbolicInt('tb' + space.uniq(), int)
            if self.mode == 'distinct':
                for p in self.handed:
                    space.add(w.var != p.var)
            elif self.mode == 'free':
                # equal weights allowed (4th comparison level reachable), but keep
                # the range small so that models stay readable
                space.add(z3.And(w.var >= 0, w.var <= 10 ** 6))
            self.handed.append(w)
            return w


class Ctx:
    def __init__(self, symbolic, weights_mode='distinct', weights=None):
        self.symbolic = symbolic
        self.pending_violation = None   # first violation raised (kept in case the code under test swallows or replaces it)
        self.goals = set()      # decided by branch outcomes: hold for every value of the path
        self.soft_goals = set() # satisfiable on the path (solver-checked), not necessarily in every model
        self.counters = {'events': 0, 'checks': 0, 'ops': 0}
        self.notes = []
        if symbolic:
            self.rng = _SymWeights(weights_mode)
        else:
            self.rng = _Popper(weights or [])

    # -- monitors ---------------------------------------------------------
    # Monitors are written once and run in both modes: in the symbolic worker the
    # numbers they see are z3 terms (``z`` converts CrossHair proxies at the
    # boundary), comparisons build z3 BoolRefs and ``require`` asks the solver whether
    # the negation is satisfiable on the current path (one query, no fork, no tracing
    # overhead); in the replayer the same code sees Python ints and bools.
    def z(self, v):
        """CrossHair proxy -> z3 term (ints/bools); containers converted element-wise."""
        if not self.symbolic:
            return v
        from crosshair.tracers import NoTracing
        with NoTracing():     # under tracing type() lies about proxies
            return self._z(v)

    def _z(self, v):
        t = type(v)
        if t in (int, bool, str, float) or v is None:
            return v
        var = getattr(v, 'var', None)
        if var is not None and hasattr(v, '__ch_realize__'):
            return var
        if t is tuple:
            return tuple(self._z(x) for x in v)
        if t is list:
            return [self._z(x) for x in v]
        if t is dict:
            return {k: self._z(x) for k, x in v.items()}
        return v

    def _raise(self, label, detail):
        if self.pending_violation is None:
            self.pending_violation = (label, detail)
        raise PropertyViolation(label, detail)

    def fail(self, label, detail=''):
        self._raise(label, detail)

    def _is_sym(self, c):
        if not self.symbolic:
            return False
        import z3
        return isinstance(c, z3.ExprRef)

    def require(self, cond, label, detail=''):
        self.counters['checks'] += 1
        if self._is_sym(cond):
            import z3
            from crosshair.statespace import context_statespace
            from crosshair.tracers import NoTracing
            with NoTracing():
                space = context_statespace()
                neg = z3.simplify(z3.Not(cond))
                if z3.is_false(neg):
                    return
                if space.is_possible(neg):
                    if not z3.is_true(neg):
                        space.add(neg)      # commit: the model of this path is now a counterexample
                    self._raise(label, detail)
            return
        if hasattr(cond, '__ch_realize__'):
            cond = self.z(cond)
            return self.require(cond, label, detail)
        if not cond:
            self._raise(label, detail)

    def possible(self, cond):
        """Can ``cond`` hold on the current path?  (no fork)"""
        if hasattr(cond, '__ch_realize__'):
            cond = self.z(cond)
        if self._is_sym(cond):
            import z3
            from crosshair.statespace import context_statespace
            from crosshair.tracers import NoTracing
            with NoTracing():
                c = z3.simplify(cond)
                if z3.is_true(c):
                    return True
                if z3.is_false(c):
                    return False
                self.counters['checks'] += 1
                return context_statespace().is_possible(c)
        return bool(cond)

    def decide(self, cond):
        """Branch on a (possibly symbolic) condition: forks CrossHair's search."""
        if self._is_sym(cond):
            import z3
            from crosshair.libimpl.builtinslib import SymbolicBool
            from crosshair.tracers import NoTracing
            with NoTracing():
                c = z3.simplify(cond)
                if z3.is_true(c):
                    return True
                if z3.is_false(c):
                    return False
                return SymbolicBool(c).__bool__()
        return bool(cond)

    def assume(self, cond):
        """Restrict the current path (symbolic) / check the replayed values (concrete)."""
        if self._is_sym(cond):
            from crosshair.statespace import context_statespace
            from crosshair.tracers import NoTracing
            from crosshair.util import IgnoreAttempt
            with NoTracing():
                space = context_statespace()
                if not space.is_possible(cond):
                    raise IgnoreAttempt('assumption unsatisfiable')
                space.add(cond)
            return
        if not cond:
            raise AssertionError('replayed values violate a harness assumption')

    # boolean / arithmetic combinators that work on z3 terms and on Python values
    def And(self, *cs):
        if any(self._is_sym(c) for c in cs):
            import z3
            return z3.And(*[c if self._is_sym(c) else z3.BoolVal(bool(c)) for c in cs])
        return all(cs)

    def Or(self, *cs):
        if any(self._is_sym(c) for c in cs):
            import z3
            return z3.Or(*[c if self._is_sym(c) else z3.BoolVal(bool(c)) for c in cs])
        return any(cs)

    def Not(self, c):
        if self._is_sym(c):
            import z3
            return z3.Not(c)
        return not c

    def Implies(self, a, b):
        return self.Or(self.Not(a), b)

    def If(self, c, a, b):
        if self._is_sym(c):
            import z3
            conv = lambda v: v if isinstance(v, z3.ExprRef) else (z3.BoolVal(v) if type(v) is bool else z3.IntVal(v))
            return z3.If(c, conv(a), conv(b))
        return a if c else b

    def Max(self, a, *rest):
        m = a
        for b in rest:
            m = self.If(m >= b, m, b)
        return m

    def Min(self, a, *rest):
        m = a
        for b in rest:
            m = self.If(m <= b, m, b)
        return m

    def goal(self, name):
        self.goals.add(name)

    def goal_if(self, name, cond):
        """Record the goal if it is reachable on this path (symbolic: satisfiable)."""
        if name in self.goals or name in self.soft_goals:
            return
        if self._is_sym(cond) or hasattr(cond, '__ch_realize__'):
            if self.possible(cond):
                self.soft_goals.add(name)
        elif cond:
            self.goals.add(name)

    def count(self, key, n=1):
        self.counters[key] = self.counters.get(key, 0) + n

    def notrace(self):
        if self.symbolic:
            from crosshair.tracers import NoTracing
            return NoTracing()
        return contextlib.nullcontext()

    def real(self, fn, *a):
        """Call into the code under test from monitor code that runs untraced."""
        if self.symbolic:
            from crosshair.tracers import ResumedTracing, is_tracing
            if not is_tracing():
                with ResumedTracing():
                    return self.z(fn(*a))
        return self.z(fn(*a))
