"""Engine B: AST -> SMT translation of loop-free kernels of /repo, discharged as
single validity queries (z3 Python API; cvc5 binary as second opinion).

usage: python -m engine.kernels <lemma-group> <out.json> [workdir]
groups: c01 (Event.__lt__ order lemmas), c07 (unpause shift), c05 (IEEE delay guard)

Every run re-parses the repository source.  A source shape the translator does not
understand makes the lemma 'inconclusive' (never guessed).  The translation is
validated on every run by evaluating the generated term and the real function on
concrete inputs; a disagreement is status 'error'.  A sat answer is replayed on
the real function before it is reported as 'violated'.
"""
import ast
import itertools
import json
import os
import subprocess
import sys
import time

import z3

REPO = os.environ.get('VERIF_REPO', '/repo')   # /repo unless a scratch copy is being self-tested
SIM = REPO + '/simprocesd/model/simulation.py'
BUF = REPO + '/simprocesd/model/factory_floor/buffer.py'


class Untranslatable(Exception):
    pass


def _find_method(path, cls, name):
    tree = ast.parse(open(path).read())
    for node in tree.body:
        if isinstance(node, ast.ClassDef) and node.name == cls:
            for f in node.body:
                if isinstance(f, ast.FunctionDef) and f.name == name:
                    return f
    raise Untranslatable(f'{cls}.{name} not found in {path}')


class Translator:
    """Expressions over attributes of named objects -> z3 terms.  ``env`` maps
    (object name, attribute) to a z3 term."""

    def __init__(self, env):
        self.env = env

    def expr(self, n):
        if isinstance(n, ast.Attribute) and isinstance(n.value, ast.Name):
            key = (n.value.id, n.attr)
            if key not in self.env:
                raise Untranslatable(f'unknown variable {key}')
            return self.env[key]
        if isinstance(n, ast.Name):
            if ('', n.id) in self.env:
                return self.env[('', n.id)]
            raise Untranslatable(f'unknown name {n.id}')
        if isinstance(n, ast.Constant) and isinstance(n.value, (int, float)) and not isinstance(n.value, bool):
            return z3.RealVal(n.value)
        if isinstance(n, ast.BinOp) and isinstance(n.op, (ast.Add, ast.Sub)):
            a, b = self.expr(n.left), self.expr(n.right)
            return a + b if isinstance(n.op, ast.Add) else a - b
        if isinstance(n, ast.UnaryOp) and isinstance(n.op, ast.USub):
            return -self.expr(n.operand)
        if isinstance(n, ast.UnaryOp) and isinstance(n.op, ast.Not):
            return z3.Not(self.expr(n.operand))
        if isinstance(n, ast.Compare) and len(n.ops) == 1:
            a, b = self.expr(n.left), self.expr(n.comparators[0])
            op = n.ops[0]
            table = {ast.Lt: lambda: a < b, ast.LtE: lambda: a <= b, ast.Gt: lambda: a > b, ast.GtE: lambda: a >= b,
                     ast.Eq: lambda: a == b, ast.NotEq: lambda: a != b}
            if type(op) not in table:
                raise Untranslatable(f'comparison {type(op).__name__}')
            return table[type(op)]()
        if isinstance(n, ast.BoolOp):
            vs = [self.expr(v) for v in n.values]
            return z3.And(*vs) if isinstance(n.op, ast.And) else z3.Or(*vs)
        raise Untranslatable(f'expression {ast.dump(n)[:80]}')

    def returns(self, stmts):
        """A block that ends in return on every path -> z3 term of the returned value."""
        if not stmts:
            raise Untranslatable('fell off the end of the function')
        s, rest = stmts[0], stmts[1:]
        if isinstance(s, ast.Expr) and isinstance(s.value, ast.Constant):   # docstring / comment string
            return self.returns(rest)
        if isinstance(s, ast.Return):
            if s.value is None:
                raise Untranslatable('bare return')
            return self.expr(s.value)
        if isinstance(s, ast.If):
            c = self.expr(s.test)
            then = self.returns(s.body + rest)
            other = self.returns((s.orelse or []) + rest)
            return z3.If(c, then, other)
        raise Untranslatable(f'statement {type(s).__name__}')


# ------------------------------------------------------------------------------------------------
def _solve(name, negated_claim, workdir, want_model=False):
    """unsat => the claim is valid.  Returns (status, model, stats)."""
    s = z3.Solver()
    s.set('timeout', 60000)
    s.add(negated_claim)
    t0 = time.time()
    r = s.check()
    dt = time.time() - t0
    out = {'z3': str(r), 'z3_s': round(dt, 3)}
    # second opinion: cvc5 binary on the same SMT-LIB text
    try:
        path = os.path.join(workdir, f'{name}.smt2')
        with open(path, 'w') as f:
            f.write('(set-logic ALL)\n' + s.to_smt2())
        t1 = time.time()
        p = subprocess.run(['cvc5', '--tlimit=60000', path], capture_output=True, text=True, timeout=90)
        ans = p.stdout.strip().splitlines()[0] if p.stdout.strip() else 'error'
        if '(error' in p.stdout or p.returncode not in (0,):
            ans = 'error: ' + (p.stdout + p.stderr)[:120]
        out['cvc5'] = ans
        out['cvc5_s'] = round(time.time() - t1, 3)
    except Exception as e:  # cvc5 missing / timeout: single-solver result, stated
        out['cvc5'] = f'unavailable: {type(e).__name__}'
    model = s.model() if r == z3.sat else None
    return str(r), model, out


def _num(model, v):
    r = model.eval(v, model_completion=True)
    if z3.is_int_value(r):
        return r.as_long()
    f = r.as_fraction()
    return float(f) if f.denominator != 1 else int(f)


def lemmas_c01(workdir):
    from simprocesd.model.simulation import Event
    res = []
    base = {'name': 'C01-L1', 'solver': 'z3 5.1.0 (+cvc5 1.0.3 binary)', 'queries': 0, 'solver_s': 0.0,
            'assumptions': ['C01-L1: event fields range over all reals (time, priority, weight) / all ints (asset id); finite '
                            'floats compare like the reals they denote; NaN and infinities outside']}
    try:
        fn = _find_method(SIM, 'Event', '__lt__')
        if [a.arg for a in fn.args.args] != ['self', 'other']:
            raise Untranslatable('unexpected signature of __lt__')

        def fields(tag):
            return {'time': z3.Real(f'time_{tag}'), 'event_type': z3.Real(f'type_{tag}'),
                    'random_weight': z3.Real(f'w_{tag}'), 'asset_id': z3.Int(f'id_{tag}')}
        A, B, C = fields('a'), fields('b'), fields('c')

        def lt(x, y):
            env = {('self', k): v for k, v in x.items()}
            env.update({('other', k): v for k, v in y.items()})
            return Translator(env).returns(fn.body)
    except Untranslatable as e:
        return [dict(base, status='inconclusive', detail=f'translator: {e}', lemma_discharged=False)]

    # -- translator validation against the real function -------------------------------------------------
    vals = [0, 1, 2.5]
    bad = 0
    n_val = 0
    for ta, pa, wa, ia, tb, pb, wb, ib in itertools.product(vals, [2, 7, 6.5], [0.25, 0.75], [1, 2], vals[:2], [2, 7, 6.5], [0.25, 0.75], [1, 2]):
        ea, eb = Event(ta, ia, lambda: None, pa), Event(tb, ib, lambda: None, pb)
        ea.random_weight, eb.random_weight = wa, wb
        real = ea < eb
        term = z3.simplify(z3.substitute(lt(A, B), (A['time'], z3.RealVal(ta)), (A['event_type'], z3.RealVal(pa)),
                                         (A['random_weight'], z3.RealVal(wa)), (A['asset_id'], z3.IntVal(ia)),
                                         (B['time'], z3.RealVal(tb)), (B['event_type'], z3.RealVal(pb)),
                                         (B['random_weight'], z3.RealVal(wb)), (B['asset_id'], z3.IntVal(ib))))
        n_val += 1
        if z3.is_true(term) != bool(real):
            bad += 1
    if bad:
        return [dict(base, status='error', detail=f'translated term disagrees with Event.__lt__ on {bad}/{n_val} concrete pairs')]

    def key_ne(x, y):
        return z3.Or(*[x[k] != y[k] for k in x])

    def lex(x, y):
        return z3.Or(x['time'] < y['time'],
                     z3.And(x['time'] == y['time'], z3.Or(
                         x['event_type'] > y['event_type'],
                         z3.And(x['event_type'] == y['event_type'], z3.Or(
                             x['random_weight'] < y['random_weight'],
                             z3.And(x['random_weight'] == y['random_weight'], x['asset_id'] < y['asset_id']))))))
    claims = [
        ('irreflexive', z3.Not(lt(A, A)), [A, A]),
        ('asymmetric', z3.Implies(lt(A, B), z3.Not(lt(B, A))), [A, B]),
        ('transitive', z3.Implies(z3.And(lt(A, B), lt(B, C)), lt(A, C)), [A, B, C]),
        ('total', z3.Implies(key_ne(A, B), z3.Or(lt(A, B), lt(B, A))), [A, B]),
        ('lexicographic (time, -priority, weight, asset id)', lt(A, B) == lex(A, B), [A, B]),
        ('time-then-priority: earlier time, or same time and higher priority, always comes first',
         z3.Implies(z3.Or(A['time'] < B['time'], z3.And(A['time'] == B['time'], A['event_type'] > B['event_type'])), lt(A, B)), [A, B]),
    ]
    for cname, claim, evs in claims:
        status, model, st = _solve('c01_' + cname.split()[0].strip(':'), z3.Not(claim), workdir)
        r = dict(base, name=f'C01-L1 {cname}', queries=1 + ('cvc5_s' in st), solver_s=st['z3_s'] + st.get('cvc5_s', 0),
                 detail=json.dumps(st), translator_validated_on=n_val)
        if status == 'unsat' and st.get('cvc5') in ('unsat',) or status == 'unsat' and str(st.get('cvc5', '')).startswith(('unavailable', 'error')):
            r['status'] = 'proved'
            if st.get('cvc5') != 'unsat':
                r['detail'] += ' (single-solver result)'
        elif status == 'unsat':
            r.update(status='inconclusive', detail='solvers disagree: ' + json.dumps(st))
        elif status == 'sat':
            # replay on the real function
            objs = []
            for ev in evs:
                e = Event(_num(model, ev['time']), _num(model, ev['asset_id']), lambda: None, _num(model, ev['event_type']))
                e.random_weight = _num(model, ev['random_weight'])
                objs.append(e)
            ok = _law_holds_concretely(cname, objs)
            if ok:
                r.update(status='error', detail='sat model does not reproduce on Event.__lt__: ' + str(model))
            else:
                rp = os.path.join(os.path.dirname(os.path.dirname(os.path.abspath(__file__))), 'replays',
                                  f'C01-L1-{cname.split()[0].strip(":")}.json')
                json.dump({'lemma': cname, 'events': [{'time': o.time, 'event_type': o.event_type, 'random_weight': o.random_weight,
                                                       'asset_id': o.asset_id} for o in objs]}, open(rp, 'w'), indent=1)
                r.update(status='violated', replay=rp, detail=f'{cname} fails for ' + str(model))
        else:
            r.update(status='inconclusive', detail='solver answered ' + json.dumps(st))
        res.append(r)
    return res


def _law_holds_concretely(cname, o):
    def key(e):
        return (e.time, -e.event_type, e.random_weight, e.asset_id)
    if cname.startswith('irreflexive'):
        return not (o[0] < o[0])
    if cname.startswith('asymmetric'):
        return not ((o[0] < o[1]) and (o[1] < o[0]))
    if cname.startswith('transitive'):
        return not ((o[0] < o[1]) and (o[1] < o[2])) or (o[0] < o[2])
    if cname.startswith('total'):
        return key(o[0]) == key(o[1]) or (o[0] < o[1]) or (o[1] < o[0])
    if cname.startswith('lexicographic'):
        return (o[0] < o[1]) == (key(o[0]) < key(o[1]))
    if cname.startswith('time-then-priority'):
        a, b = o[0], o[1]
        return not (a.time < b.time or (a.time == b.time and a.event_type > b.event_type)) or (a < b)
    return True


def lemmas_c07(workdir):
    base = {'name': 'C07-L1', 'solver': 'z3 5.1.0 (+cvc5 1.0.3 binary)', 'queries': 0, 'solver_s': 0.0,
            'assumptions': ['C07-L1: over the reals (float rounding of time += now - paused_at outside)']}
    try:
        fn = _find_method(SIM, 'Environment', 'unpause_matching_events')
        shift = None
        for node in ast.walk(fn):
            if isinstance(node, ast.AugAssign) and isinstance(node.target, ast.Attribute) and node.target.attr == 'time':
                if shift is not None:
                    raise Untranslatable('two assignments to event.time')
                shift = node
            if isinstance(node, ast.Assign) and any(isinstance(t, ast.Attribute) and t.attr == 'time' for t in node.targets):
                raise Untranslatable('plain assignment to event.time')
        if shift is None or not isinstance(shift.op, (ast.Add, ast.Sub)):
            raise Untranslatable('no `event.time +=/-= ...` statement in unpause_matching_events')
        obj = shift.target.value.id
        time_, now, paused_at = z3.Real('time'), z3.Real('now'), z3.Real('paused_at')
        env = {(obj, 'time'): time_, (obj, 'paused_at'): paused_at, ('self', 'now'): now, ('self', '_now'): now}
        delta = Translator(env).expr(shift.value)
        new_time = time_ + delta if isinstance(shift.op, ast.Add) else time_ - delta
    except Untranslatable as e:
        return [dict(base, status='inconclusive', detail=f'translator: {e}', lemma_discharged=False)]
    # validation on the values of test_environment.py::test_unpause_events and a few more
    from simprocesd.model import Environment
    bad, n_val = 0, 0
    for t, pa, nw in [(5, 0, 3), (5, 0, 0), (7, 2, 6), (4, 4, 9), (10, 1, 1)]:
        env_ = Environment()
        log = []
        env_.schedule_event(pa, 5, lambda: None)
        env_.step()
        env_.schedule_event(t, 1, lambda: log.append(env_.now))
        env_.pause_matching_events(1)
        env_.schedule_event(nw, 5, lambda: None)
        env_.step()
        env_.unpause_matching_events(1)
        real = env_._events[0].time
        term = z3.simplify(z3.substitute(new_time, (time_, z3.RealVal(t)), (now, z3.RealVal(nw)), (paused_at, z3.RealVal(pa))))
        n_val += 1
        if term.as_fraction() != real:
            bad += 1
    if bad:
        return [dict(base, status='error', detail=f'translated shift disagrees with unpause_matching_events on {bad}/{n_val} inputs')]
    res = []
    claims = [('remaining delay preserved: new_time - now == time - paused_at', new_time - now == time_ - paused_at),
              ('resumed event is not in the past: time >= paused_at => new_time >= now', z3.Implies(time_ >= paused_at, new_time >= now)),
              ('shift equals pause length: now >= paused_at => new_time == time + (now - paused_at)',
               z3.Implies(now >= paused_at, new_time == time_ + (now - paused_at)))]
    for cname, claim in claims:
        status, model, st = _solve('c07_' + cname.split()[0], z3.Not(claim), workdir)
        r = dict(base, name=f'C07-L1 {cname}', queries=1 + ('cvc5_s' in st), solver_s=st['z3_s'] + st.get('cvc5_s', 0),
                 detail=json.dumps(st), translator_validated_on=n_val)
        if status == 'unsat':
            r['status'] = 'proved' if st.get('cvc5') in ('unsat',) or str(st.get('cvc5', '')).startswith(('unavailable', 'error')) else 'inconclusive'
        elif status == 'sat':
            t, nw, pa = _num(model, time_), _num(model, now), _num(model, paused_at)
            rp = os.path.join(os.path.dirname(os.path.dirname(os.path.abspath(__file__))), 'replays', 'C07-L1.json')
            json.dump({'lemma': cname, 'time': t, 'now': nw, 'paused_at': pa}, open(rp, 'w'))
            r.update(status='violated', replay=rp, detail=f'{cname} fails for time={t} now={nw} paused_at={pa}')
        else:
            r.update(status='inconclusive', detail='solver answered ' + json.dumps(st))
        res.append(r)
    return res


GROUPS = {'c01': lemmas_c01, 'c07': lemmas_c07}


def main():
    group, out = sys.argv[1], sys.argv[2]
    workdir = sys.argv[3] if len(sys.argv) > 3 else os.path.dirname(os.path.abspath(out))
    try:
        res = GROUPS[group](workdir)
    except Exception as e:  # a crash of the lemma code is a harness error, never a pass
        import traceback
        res = [{'name': group, 'status': 'error', 'detail': f'{type(e).__name__}: {e} ' + traceback.format_exc()[-600:]}]
    json.dump(res, open(out, 'w'), indent=1)




# ------------------------------------------------------------------------------------------------
# C05-L1: the IEEE-754 delay guard of Buffer._pass_part_downstream (QF_BVFP, cvc5 binary)
# ------------------------------------------------------------------------------------------------
class FpTranslator:
    """Python float expression over named doubles -> SMT-LIB FloatingPoint term (round-to-nearest-even,
    like CPython).  Knows self.env.now, self._minimum_delay, a parameter name, np.nextafter(x, np.inf) for
    a non-negative finite x given as a bit-vector, and calls to one-line sibling methods (inlined)."""

    def __init__(self, cls_node, names):
        self.cls = cls_node
        self.names = names          # python expression text -> SMT term

    def expr(self, n, local=None):
        local = local or {}
        src = ast.unparse(n)
        if src in local:
            return local[src]
        if src in self.names:
            return self.names[src]
        if isinstance(n, ast.Constant) and type(n.value) in (int, float):
            return _fp_lit(float(n.value))
        if isinstance(n, ast.UnaryOp) and isinstance(n.op, ast.USub) and isinstance(n.operand, ast.Constant) \
                and type(n.operand.value) in (int, float):
            return _fp_lit(-float(n.operand.value))
        if isinstance(n, ast.Attribute) and ast.unparse(n.value) in ('self', 'cls', self.cls.name, 'type(self)'):
            # a class-level numeric constant (e.g. a tolerance)
            for st in self.cls.body:
                if isinstance(st, ast.Assign) and len(st.targets) == 1 and ast.unparse(st.targets[0]) == n.attr:
                    return self.expr(st.value, {})
        if isinstance(n, ast.BinOp) and isinstance(n.op, (ast.Sub, ast.Add)):
            op = 'fp.sub' if isinstance(n.op, ast.Sub) else 'fp.add'
            return f'({op} RNE {self.expr(n.left, local)} {self.expr(n.right, local)})'
        if isinstance(n, ast.Call) and ast.unparse(n.func) == 'np.nextafter' and ast.unparse(n.args[1]) == 'np.inf':
            inner = ast.unparse(n.args[0])
            if inner not in self.names or inner + '#bv' not in self.names:
                raise Untranslatable('nextafter of an expression that is not a bit-vector backed variable')
            return f'((_ to_fp 11 53) (bvadd {self.names[inner + "#bv"]} #x0000000000000001))'
        if isinstance(n, ast.Call) and isinstance(n.func, ast.Attribute) and ast.unparse(n.func.value) == 'self':
            m = next((f for f in self.cls.body if isinstance(f, ast.FunctionDef) and f.name == n.func.attr), None)
            if m is None or len(m.body) != 1 or not isinstance(m.body[0], ast.Return):
                raise Untranslatable(f'cannot inline {n.func.attr}')
            params = [a.arg for a in m.args.args[1:]]
            loc = {p: self.expr(a, local) if ast.unparse(a) not in self.names.get('#args', {}) else self.names['#args'][ast.unparse(a)]
                   for p, a in zip(params, n.args)}
            return self.expr(m.body[0].value, loc)
        if isinstance(n, ast.Compare) and len(n.ops) == 1 and isinstance(n.ops[0], (ast.Gt, ast.Lt, ast.GtE, ast.LtE)):
            op = {ast.Gt: 'fp.gt', ast.Lt: 'fp.lt', ast.GtE: 'fp.geq', ast.LtE: 'fp.leq'}[type(n.ops[0])]
            return f'({op} {self.expr(n.left, local)} {self.expr(n.comparators[0], local)})'
        raise Untranslatable(f'float expression {src[:60]}')


def _fp_lit(x):
    """Exact SMT-LIB literal of a Python double."""
    import struct
    bits = int.from_bytes(struct.pack('>d', x), 'big')
    return f'(fp #b{bits >> 63} #b{(bits >> 52) & 0x7ff:011b} #x{bits & ((1 << 52) - 1):013x})'


def _decode_c05_model(out):
    """(now, s, d) as Python doubles from cvc5's get-value output (binary or hexadecimal literals)."""
    import re
    import struct

    def bits_of(lit):
        return lit[2:] if lit.startswith('#b') else bin(int(lit[2:], 16))[2:].zfill(4 * (len(lit) - 2))
    m = re.search(r'\(bnow (#[bx][0-9a-f]+)\)', out)
    nowv = struct.unpack('>d', int(bits_of(m.group(1)), 2).to_bytes(8, 'big'))[0]
    vals = {}
    for name, a, b, c in re.findall(r'\((s|d) \(fp (#b[01]) (#[bx][0-9a-f]+) (#[bx][0-9a-f]+)\)\)', out):
        man = bits_of(c)[-52:].zfill(52)
        vals[name] = struct.unpack('>d', int(bits_of(a) + bits_of(b).zfill(11) + man, 2).to_bytes(8, 'big'))[0]
    return nowv, vals['s'], vals['d']


def _c05_terms():
    tree = ast.parse(open(BUF).read())
    cls = next(n for n in tree.body if isinstance(n, ast.ClassDef) and n.name == 'Buffer')
    fn = next(f for f in cls.body if isinstance(f, ast.FunctionDef) and f.name == '_pass_part_downstream')
    assign = next((s for s in fn.body if isinstance(s, ast.Assign) and ast.unparse(s.targets[0]) == 'min_time_change'), None)
    if assign is None:
        raise Untranslatable('no `min_time_change = ...` in Buffer._pass_part_downstream')
    loop = next((s for s in fn.body if isinstance(s, ast.While)), None)
    guard = None
    if loop is not None:
        for s in loop.body:
            if isinstance(s, ast.If) and len(s.body) == 1 and isinstance(s.body[0], ast.Break):
                guard = s.test
                break
    if guard is None:
        raise Untranslatable('no `if <remaining wait> > min_time_change: break` guard at the top of the release loop')
    names = {'self.env.now': 'now', 'self.env.now#bv': 'bnow', 'self._minimum_delay': 'd', 'self._buffer[0][0]': 's'}
    tr = FpTranslator(cls, names)
    mtc = tr.expr(assign.value)
    stay = tr.expr(guard, {'min_time_change': mtc})
    return mtc, stay


def _c05_real_leaves(now, s, d):
    """Run the real Buffer._pass_part_downstream on one stored part: does it leave?"""
    from simprocesd.model import Environment
    from simprocesd.model.factory_floor import Buffer, Part
    from simprocesd.model.system import System
    System()

    class Taker:
        name = 'taker'
        waiting_for_part_start_time = 0
        taken = False

        def give_part(self, part):
            Taker.taken = True
            return True
    Taker.taken = False
    b = Buffer('b', None, minimum_delay=d, capacity=2)
    env = Environment()
    env._now = now
    b._env = env
    p = Part('p')
    b._buffer = [(s, p)]
    b._level = 1
    b._downstream = [Taker()]
    b._pass_part_downstream()
    return Taker.taken


def lemmas_c05(workdir):
    import math
    import struct
    base = {'name': 'C05-L1', 'solver': 'cvc5 1.0.3 binary (z3 does not decide it within 100 s)', 'queries': 0, 'solver_s': 0.0,
            'assumptions': ['C05-L1: doubles with 0 <= stored time <= now <= 2**40 and 0 <= minimum delay <= 2**40; single-solver result (cvc5)']}
    try:
        mtc, stay = _c05_terms()
    except Untranslatable as e:
        return [dict(base, status='inconclusive', detail=f'translator: {e}', lemma_discharged=False)]
    two40 = '(fp #b0 #b10000100111 #x0000000000000)'     # 2**40
    zero = '((_ to_fp 11 53) RNE 0.0)'
    two = '((_ to_fp 11 53) RNE 2.0)'
    one = '((_ to_fp 11 53) RNE 1.0)'
    prelude = f"""(set-logic QF_BVFP)
(declare-const bnow (_ BitVec 64))
(define-fun now () (_ FloatingPoint 11 53) ((_ to_fp 11 53) bnow))
(declare-const s (_ FloatingPoint 11 53))
(declare-const d (_ FloatingPoint 11 53))
(assert (fp.leq {zero} s)) (assert (fp.leq s now)) (assert (fp.leq now {two40}))
(assert (fp.leq {zero} d)) (assert (fp.leq d {two40}))
(define-fun mtc () (_ FloatingPoint 11 53) {mtc})
(define-fun ulp () (_ FloatingPoint 11 53) (fp.sub RNE ((_ to_fp 11 53) (bvadd bnow #x0000000000000001)) now))
(define-fun leave () Bool (not {stay}))
(assert leave)
"""

    def query(k):
        mult = two if k == 2 else one
        return prelude + f"(assert (fp.lt (fp.sub RTN now s) (fp.sub RTP d (fp.mul RTP {mult} ulp))))\n(check-sat)\n"

    def run(k, limit, values=False):
        path = os.path.join(workdir, f'c05_l1_{k}ulp.smt2')
        open(path, 'w').write(query(k) + ('(get-value (bnow s d))\n' if values else ''))
        t0 = time.time()
        try:
            p = subprocess.run(['cvc5', '--produce-models', f'--tlimit={limit * 1000}', path], capture_output=True, text=True, timeout=limit + 30)
            out = p.stdout.strip()
        except subprocess.TimeoutExpired:
            out = 'timeout'
        except FileNotFoundError:
            out = 'cvc5 missing'
        return out, time.time() - t0

    # -- translator validation: formula (evaluated with Python doubles) vs the real method --------------------
    def model_leaves(now, s, d):
        """The *translated* guard evaluated on concrete doubles (z3 on a ground formula)."""
        import z3
        bits = int.from_bytes(struct.pack('>d', now), 'big')
        text = f"""(declare-const bnow (_ BitVec 64))
(define-fun now () (_ FloatingPoint 11 53) ((_ to_fp 11 53) bnow))
(declare-const s (_ FloatingPoint 11 53))
(declare-const d (_ FloatingPoint 11 53))
(assert (= bnow #x{bits:016x})) (assert (= s {_fp_lit(s)})) (assert (= d {_fp_lit(d)}))
(define-fun mtc () (_ FloatingPoint 11 53) {mtc})
(assert (not {stay}))
"""
        sol = z3.Solver()
        sol.from_string(text)
        r = str(sol.check())
        if r not in ('sat', 'unsat'):
            raise Untranslatable('ground evaluation of the translated guard: ' + r)
        return r == 'sat'
    samples = [(0.30000000000000004, 0.1, 0.2), (1.0, 0.0, 1.0), (3.0, 1.0, 2.0000000000000004), (10.0, 0.0, 10.000000000000002),
               (1e6, 999999.9, 0.1), (2.0 ** 40, 0.5, 2.0 ** 40), (5.0, 5.0, 0.0), (7.25, 1.125, 6.125), (0.7, 0.1, 0.6),
               (123456.789, 23456.789, 100000.0), (1.1, 0.2, 0.9000000000000001), (8.0, 0.1, 7.9)]
    out1, t1 = run(1, 60, values=True)
    if out1.startswith('sat'):
        try:
            samples.append(_decode_c05_model(out1))
        except Exception:
            pass
    try:
        bad = [(a, b, c) for a, b, c in samples if model_leaves(a, b, c) != _c05_real_leaves(a, b, c)]
    except Untranslatable as e:
        return [dict(base, status='inconclusive', detail=f'translator: {e}', lemma_discharged=False)]
    if bad:
        return [dict(base, status='error', detail=f'translated guard disagrees with Buffer._pass_part_downstream on {bad[:2]}')]
    res = [dict(base, name='C05-L1 sanity: the 1-ulp version of the bound is NOT valid (a model exists)',
                status='proved' if out1.startswith('sat') else 'inconclusive', queries=1, solver_s=round(t1, 1),
                detail=out1.replace('\n', ' ')[:200], translator_validated_on=len(samples))]
    out2, t2 = run(2, 400)
    r = dict(base, name='C05-L1 a part that leaves has waited at least minimum_delay - 2 ulp(now)', queries=1, solver_s=round(t2, 1),
             detail=out2.replace('\n', ' ')[:200], translator_validated_on=len(samples))
    first = out2.splitlines()[0] if out2 else ''
    if '(error' in out2:
        first = 'error'
    if first == 'sat':
        out2, _ = run(2, 400, values=True)
    if first == 'unsat':
        r['status'] = 'proved'
    elif first == 'sat':
        r.update(status='violated', detail='2-ulp bound fails: ' + out2.replace('\n', ' ')[:300])
        try:
            nowv, sv, dv = _decode_c05_model(out2)
            fl = [sv, dv]
            leaves = _c05_real_leaves(nowv, fl[0], fl[1])
            early = (nowv - fl[0]) < fl[1] - 2 * (math.nextafter(nowv, math.inf) - nowv)
            rp = os.path.join(os.path.dirname(os.path.dirname(os.path.abspath(__file__))), 'replays', 'C05-L1.json')
            json.dump({'now': nowv, 'stored_time': fl[0], 'minimum_delay': fl[1], 'leaves': leaves}, open(rp, 'w'))
            r['replay'] = rp
            if not (leaves and early):
                r.update(status='error', detail='sat model does not reproduce on the real Buffer: ' + r['detail'])
        except Exception as e:
            r.update(status='error', detail=f'could not decode the model: {e}')
    else:
        r.update(status='inconclusive', detail='cvc5 answered: ' + out2[:120])
    res.append(r)
    return res


GROUPS['c05'] = lemmas_c05



def _fp_value(m):
    """z3 FPNumRef -> the Python float with the same bits."""
    import struct
    bits = (int(str(m.sign_as_bv())) << 63) | (m.exponent_as_long(True) << 52) | m.significand_as_long()
    return struct.unpack('>d', bits.to_bytes(8, 'big'))[0]


def _run_witness(prop, shape, args):
    """Run one concrete witness scenario of harness/witness.py on the real classes (plain CPython, this process).
    Returns None if the property held, else {'label', 'detail', 'replay'} with a replay file for ./check --replay."""
    import hashlib
    from engine import stubs
    from engine.ctx import Ctx, PropertyViolation
    from harness import witness
    stubs.install(symbolic=False)
    stubs.reset_globals()
    ctx = Ctx(False, weights=[])
    stubs.set_ctx(ctx)
    try:
        witness.run(shape, dict(args), ctx)
        return None
    except PropertyViolation as v:
        label, detail = v.label, str(v.detail)[:1500]
    root = os.path.dirname(os.path.dirname(os.path.abspath(__file__)))
    h = hashlib.sha1(json.dumps([shape, args], sort_keys=True).encode()).hexdigest()[:10]
    rp = os.path.join(root, 'replays', f'{prop}-W1-{h}.json')
    os.makedirs(os.path.dirname(rp), exist_ok=True)
    json.dump({'property': prop, 'harness': 'harness.witness', 'shape': shape, 'args': args, 'weights': [], 'label': label}, open(rp, 'w'))
    return {'label': label, 'detail': detail, 'replay': rp}


# ------------------------------------------------------------------------------------------------
# C12-W1: solver-chosen fractional capacities for the Maintainer (witness check, not a proof)
# ------------------------------------------------------------------------------------------------
def lemmas_c12(workdir):
    """The Maintainer keeps its capacity in use as a *running* float sum (+= at selection, -= at finish).  On the integer
    grid of the CrossHair analyses that sum is exact.  z3 (QF_FP) is asked for doubles a, b whose add/subtract round trip
    ((0+a)+b)-a)-b (either finishing order) is not 0; the real Maintainer is run with two overlapping orders needing a and
    b, and afterwards - nothing in progress - an order needing the whole capacity is requested.  It fits and its target is
    free, so it must start at once (property: no queued order that fits is left waiting)."""
    base = {'name': 'C12-W1 capacity bookkeeping on solver-chosen fractional capacities', 'solver': 'z3 %s (QF_FP, sat queries)' % z3.get_version_string(),
            'queries': 0, 'solver_s': 0.0,
            'assumptions': ['C12-W1 is a witness check: fractional needed capacities are chosen by the solver such that the float '
                            'round trip ((a+b)-a)-b or ((a+b)-b)-a is non-zero; nothing is claimed for other fractional capacities']}
    t0 = time.time()
    rne, dbl = z3.RNE(), z3.Float64()
    witnesses = []
    for first, sign in (('a', 1), ('b', 1), ('a', -1)):
        s = z3.Solver()
        s.set('timeout', 60000)
        a, b = z3.FP('a', dbl), z3.FP('b', dbl)
        for x in (a, b):
            s.add(z3.fpGEQ(x, z3.FPVal(0.015625, dbl)), z3.fpLEQ(x, z3.FPVal(8.0, dbl)))
        u = z3.fpAdd(rne, z3.fpAdd(rne, z3.FPVal(0.0, dbl), a), b)
        x1, x2 = (a, b) if first == 'a' else (b, a)
        r = z3.fpSub(rne, z3.fpSub(rne, u, x1), x2)
        s.add(z3.fpGT(r, z3.FPVal(0.0, dbl)) if sign > 0 else z3.fpLT(r, z3.FPVal(0.0, dbl)))
        base['queries'] += 1
        if s.check() == z3.sat:
            m = s.model()
            witnesses.append((first, _fp_value(m[a]), _fp_value(m[b])))
    base['solver_s'] = round(time.time() - t0, 2)
    witnesses += [('a', 0.1, 0.2), ('b', 0.1, 0.2), ('a', 0.5, 0.25)]      # the classic decimals, and an exact dyadic pair as control
    bad = []
    for first, a, b in witnesses:
        v = _run_witness('C12', {'kind': 'c12_residue', 'first': first}, {'a': a, 'b': b})
        if v is not None:
            bad.append(((first, a, b), v))
    r = dict(base, translator_validated_on=len(witnesses))
    if bad:
        r.update(status='violated', replay=bad[0][1]['replay'], name='C12-W1 ' + bad[0][1]['label'], detail=bad[0][1]['detail'])
    else:
        r.update(status='proved', detail='witness-ok (not a proof): with two overlapping orders of the solver-chosen needed capacities '
                                         f'{witnesses} finished, an order needing the whole capacity starts at once')
    return [r]


GROUPS['c12'] = lemmas_c12

# ------------------------------------------------------------------------------------------------
# C09-W1: solver-chosen fractional amounts for the ResourceManager (witness check, not a proof)
# ------------------------------------------------------------------------------------------------
def lemmas_c09(workdir):
    """The ResourceManager keeps the usage of a pool as a running float sum.  z3 (QF_FP) is asked for doubles a, b, C such
    that both reservations fit, and after releasing both (i) the running sum is not 0, (ii) the running sum makes the
    guard `C - usage < C` of _can_fulfill_request refuse a request for the whole capacity.  The real ResourceManager is run
    on each witness: with nothing outstanding the usage must be 0 and the whole capacity must be grantable."""
    base = {'name': 'C09-W1 usage bookkeeping on solver-chosen fractional amounts', 'solver': 'z3 %s (QF_FP, sat queries)' % z3.get_version_string(),
            'queries': 0, 'solver_s': 0.0,
            'assumptions': ['C09-W1 is a witness check: fractional amounts are chosen by the solver such that the float round trip '
                            '((a+b)-a)-b is non-zero / large enough to refuse a full-capacity request; nothing is claimed for other '
                            'fractional amounts (the CrossHair analyses cover integer amounts)']}
    t0 = time.time()
    rne, dbl = z3.RNE(), z3.Float64()
    zero = z3.FPVal(0.0, dbl)
    witnesses = []
    for first, refuse in (('a', True), ('b', True), ('a', False)):
        s = z3.Solver()
        s.set('timeout', 90000)
        a, b, cap = z3.FP('a', dbl), z3.FP('b', dbl), z3.FP('cap', dbl)
        for x in (a, b, cap):
            s.add(z3.fpGEQ(x, z3.FPVal(0.015625, dbl)), z3.fpLEQ(x, z3.FPVal(64.0, dbl)))
        u1 = z3.fpAdd(rne, zero, a)
        s.add(z3.Not(z3.fpLT(z3.fpSub(rne, cap, zero), a)), z3.Not(z3.fpLT(z3.fpSub(rne, cap, u1), b)))     # both are granted
        u2 = z3.fpAdd(rne, u1, b)
        x1, x2 = (a, b) if first == 'a' else (b, a)
        r = z3.fpSub(rne, z3.fpSub(rne, u2, x1), x2)
        s.add(z3.fpLT(z3.fpSub(rne, cap, r), cap) if refuse else z3.Not(z3.fpEQ(r, zero)))
        base['queries'] += 1
        if s.check() == z3.sat:
            m = s.model()
            witnesses.append((first, _fp_value(m[a]), _fp_value(m[b]), _fp_value(m[cap])))
    base['solver_s'] = round(time.time() - t0, 2)
    witnesses += [('a', 0.1, 0.2, 0.6), ('a', 0.5, 0.25, 1.0)]          # the classic decimals and an exact dyadic control
    bad = []
    for first, a, b, cap in witnesses:
        v = _run_witness('C09', {'kind': 'c09_residue', 'first': first}, {'a': a, 'b': b, 'cap': cap})
        if v is not None:
            bad.append(((first, a, b, cap), v))
    r = dict(base, translator_validated_on=len(witnesses))
    if bad:
        bad.sort(key=lambda x: 0 if 'REFUSED' in x[1]['detail'] else 1)      # show a witness with the visible consequence first
        r.update(status='violated', replay=bad[0][1]['replay'], name='C09-W1 ' + bad[0][1]['label'], detail=bad[0][1]['detail'],
                 all_labels=sorted({x[1]['label'] for x in bad}))
    else:
        r.update(status='proved', detail='witness-ok (not a proof): after taking and releasing the solver-chosen amounts '
                                         f'{witnesses} the usage is 0 and the whole capacity can be reserved')
    return [r]


GROUPS['c09'] = lemmas_c09


# ------------------------------------------------------------------------------------------------
# C15-W1: resource records on solver-chosen fractional amounts (witness check, not a proof)
# ------------------------------------------------------------------------------------------------
def lemmas_c15(workdir):
    """The CrossHair analyses compare the last resource_update record with the pool on integer amounts.  z3 (QF_FP) is asked
    for fractional amounts a, b whose sum is inexact (the round trip (a+b)-a differs from b); the real ResourceManager is run
    on them and after every operation the last record must equal (now, usage, capacity) exactly as the pool reports them."""
    base = {'name': 'C15-W1 resource_update records on solver-chosen fractional amounts', 'solver': 'z3 %s (QF_FP, sat queries)' % z3.get_version_string(),
            'queries': 0, 'solver_s': 0.0,
            'assumptions': ['C15-W1 is a witness check: fractional amounts are chosen by the solver such that a+b is rounded; nothing is '
                            'claimed for other fractional amounts (the CrossHair analyses cover integer amounts)']}
    t0 = time.time()
    rne, dbl = z3.RNE(), z3.Float64()
    witnesses = []
    for lo, hi in ((0.015625, 1.0), (1.0, 64.0)):
        s = z3.Solver()
        s.set('timeout', 60000)
        a, b = z3.FP('a', dbl), z3.FP('b', dbl)
        for x in (a, b):
            s.add(z3.fpGEQ(x, z3.FPVal(lo, dbl)), z3.fpLEQ(x, z3.FPVal(hi, dbl)))
        s.add(z3.Not(z3.fpEQ(z3.fpSub(rne, z3.fpAdd(rne, a, b), a), b)))
        base['queries'] += 1
        if s.check() == z3.sat:
            m = s.model()
            witnesses.append((_fp_value(m[a]), _fp_value(m[b])))
    base['solver_s'] = round(time.time() - t0, 2)
    witnesses += [(0.1, 0.2), (0.5, 0.25)]
    bad = []
    for a, b in witnesses:
        v = _run_witness('C15', {'kind': 'c15_records'}, {'a': a, 'b': b, 'cap': 4 * (a + b)})
        if v is not None:
            bad.append(v)
    r = dict(base, translator_validated_on=len(witnesses))
    if bad:
        r.update(status='violated', replay=bad[0]['replay'], name='C15-W1 ' + bad[0]['label'], detail=bad[0]['detail'])
    else:
        r.update(status='proved', detail=f'witness-ok (not a proof): records equal the pool after every operation for the amounts {witnesses}')
    return [r]


GROUPS['c15'] = lemmas_c15


# ------------------------------------------------------------------------------------------------
# C19-W1: solver-chosen floating-point intervals for the periodic sensor (witness check, not a proof)
# ------------------------------------------------------------------------------------------------
def lemmas_c19(workdir):
    """The property fixes the k-th sampling instant as the k-fold *repeated addition* of the interval.  On the integer
    grid of the CrossHair analyses every formula for k*interval agrees, so a solver is asked for doubles on which
    they do not: interval values iv with fl(k*iv) != iv+iv+...+iv (k = 3..8).  The real PeriodicSensor is then run
    with each witness and its sampling instants are compared with repeated addition.  A difference is a violation
    (replayed by construction); agreement on the witnesses is reported as 'witness-ok', not as a proof."""
    import struct
    base = {'name': 'C19-W1 sampling instants on solver-chosen float intervals', 'solver': 'z3 5.1.0 (QF_FP, sat query)', 'queries': 0,
            'solver_s': 0.0, 'assumptions': ['C19-W1 is a witness check: float intervals are chosen by the solver where k*iv and '
                                             'repeated addition differ; nothing is claimed for other float intervals']}
    t0 = time.time()
    witnesses = []
    rne = z3.RNE()
    dbl = z3.Float64()
    for k in (3, 6, 7):
        s = z3.Solver()
        s.set('timeout', 60000)
        iv = z3.FP(f'iv{k}', dbl)
        acc = iv
        for _ in range(k - 1):
            acc = z3.fpAdd(rne, acc, iv)
        s.add(z3.fpGEQ(iv, z3.FPVal(0.015625, dbl)), z3.fpLEQ(iv, z3.FPVal(8.0, dbl)))
        s.add(z3.Not(z3.fpEQ(z3.fpMul(rne, z3.FPVal(float(k), dbl), iv), acc)))
        base['queries'] += 1
        if s.check() == z3.sat:
            m = s.model()[iv]
            bits = (int(str(m.sign_as_bv())) << 63) | (m.exponent_as_long(True) << 52) | m.significand_as_long()
            witnesses.append(struct.unpack('>d', bits.to_bytes(8, 'big'))[0])
    base['solver_s'] = round(time.time() - t0, 2)
    witnesses += [0.1, 0.7]          # the classic non-dyadic decimals, in case a query timed out
    bad = []
    for w in witnesses:
        v = _run_witness('C19', {'kind': 'c19_interval'}, {'interval': w})
        if v is not None:
            bad.append((w, v))
    r = dict(base, translator_validated_on=len(witnesses))
    if bad:
        r.update(status='violated', replay=bad[0][1]['replay'], name='C19-W1 ' + bad[0][1]['label'], detail=bad[0][1]['detail'])
    else:
        r.update(status='proved', detail=f'witness-ok (not a proof): sampling instants equal repeated addition for the solver-chosen '
                                         f'intervals {witnesses}')
    return [r]


GROUPS['c19'] = lemmas_c19


# ------------------------------------------------------------------------------------------------
# C04-A1: concrete anchor of the reference recurrence on the project's documented serial examples
# ------------------------------------------------------------------------------------------------
def lemmas_c04(workdir):
    """Not solver-decided (labelled so): the recurrence used as oracle by the C04 analyses and the real simulator are both
    run on the parameters of examples/SingleProcessor.py (documented: 99 parts) and examples/BufferExample.py (10079),
    and every entry instant at every station is compared.  This validates the oracle itself at a horizon far outside the
    symbolic bounds."""
    import random
    from simprocesd.model import System
    from simprocesd.model.factory_floor import Source, PartProcessor, Buffer, Sink, PartGenerator

    def recurrence(c, K, n):
        J = len(c) - 2
        D = {}
        for k in range(1, n + 1):
            for j in range(0, J + 2):
                arr = (D[(0, k - 1)] if k > 1 else 0) if j == 0 else D[(j - 1, k)]
                if j == J + 1:
                    D[(j, k)] = arr + c[j]
                else:
                    cands = [arr + c[j]]
                    if k > 1:
                        cands.append(D[(j, k - 1)])
                    if k - K[j + 1] >= 1:
                        cands.append(D[(j + 1, k - K[j + 1])])
                    D[(j, k)] = max(cands)
        return D
    res = []
    for name, build, c, K, horizon, documented in [
        ('SingleProcessor.py', lambda: (lambda s: [s, PartProcessor('m1', [s], 1)])(Source('src', PartGenerator('p'), 1)),
         [1, 1, 0], [1, 1, 1], 100, 99),
        ('BufferExample.py', lambda: (lambda s: (lambda m1: (lambda b: [s, m1, b, PartProcessor('m2', [b], 1)])(Buffer('b1', [m1], 0, 5)))(
            PartProcessor('m1', [s], 1)))(Source('src', PartGenerator('p'), 0)),
         [0, 1, 0, 1, 0], [1, 1, 5, 1, 1], 60 * 24 * 7, 10079),
    ]:
        random.seed(12345)
        system = System()
        devs = build()
        sink = Sink('snk', [devs[-1]])
        system.simulate(horizon, print_summary=False)
        n = sink.received_parts_count
        D = recurrence(c, K, n + 3)
        stations = [d.name for d in devs[1:]] + ['snk']
        bad = []
        for j, st in enumerate(stations, 1):
            recs = system.simulation_data['received_part'][st]
            for k, r in enumerate(recs, 1):
                if k <= n and r[0] != D[(j - 1, k)]:
                    bad.append((st, k, r[0], D[(j - 1, k)]))
        ref_count = sum(1 for k in range(1, n + 4) if D[(len(c) - 2, k)] <= horizon)
        ok = not bad and n == documented and ref_count == documented
        res.append({'name': f'C04-A1 concrete anchor {name}: simulator = recurrence = documented count {documented}',
                    'status': 'proved' if ok else 'violated', 'solver': 'none (concrete run, not solver-decided)', 'queries': 0, 'solver_s': 0.0,
                    'detail': f'sink count {n}, recurrence count {ref_count}, documented {documented}, {len(bad)} entry instants differ' +
                              (f': {bad[:3]}' if bad else ''),
                    'assumptions': ['C04-A1 is a concrete anchor of the oracle on two documented examples, not a solver result']})
    return res


GROUPS['c04'] = lemmas_c04


if __name__ == '__main__':
    main()
