"""Which harness modules / lemmas decide which property (MANIFEST.json is generated from this)."""

HOOK_COMMITS = []
NOT_APPLICABLE = {}

CHECKS = {
    'C01': {
        'harnesses': ['harness.queue'], 'lemmas': 'c01',
        'text': 'Bounded model checking of the real Environment/Event queue: every bounded sequence of schedule / schedule-in-the-past / '
                'pause / unpause / cancel / step / run operations, also issued from inside event actions, with symbolic assets, delays, '
                'priorities, run lengths and free tie-break weights, is explored path-exhaustively; an online reference queue checks that '
                'each dispatched event is minimal for (time, -priority), the clock equals its time and never decreases, past scheduling '
                'is rejected without effect, actions run at most once and run(d) executes exactly the live events due by t0+d.',
    },
    'C07': {
        'harnesses': ['harness.queue'], 'lemmas': 'c07',
        'text': 'Same harness as C01 restricted to schedule/pause/unpause/cancel/advance at non-zero symbolic times: after every operation '
                'the real pending and paused sets must equal the reference (paused events withheld, resumed at original time + pause length, '
                'cancelled events never run, later events unaffected, redundant calls no-ops), and after a final unpause-all + drain every '
                'never-cancelled event has run exactly once at its reference time.',
    },
    'C09': {
        'harnesses': ['harness.c09_pool'],
        'text': 'Bounded model checking of the real ResourceManager/ReservedResources: every sequence of N pool operations '
                '(add/reduce, reserve in both key orders incl. zero/negative/unknown entries, full/partial/repeated release, '
                'merge) with unbounded symbolic integer amounts is explored path-exhaustively by CrossHair+z3 and the '
                'property invariants are asserted after each operation. Right level: the state space is reachable in a few '
                'API calls and the numbers are the only unbounded part, which the solver covers for all values.',
    },
}
