"""Which harness modules / lemmas decide which property (MANIFEST.json is generated from this)."""

HOOK_COMMITS = []
NOT_APPLICABLE = {}

CHECKS = {
    'C09': {
        'harnesses': ['harness.c09_pool'],
        'text': 'Bounded model checking of the real ResourceManager/ReservedResources: every sequence of N pool operations '
                '(add/reduce, reserve in both key orders incl. zero/negative/unknown entries, full/partial/repeated release, '
                'merge) with unbounded symbolic integer amounts is explored path-exhaustively by CrossHair+z3 and the '
                'property invariants are asserted after each operation. Right level: the state space is reachable in a few '
                'API calls and the numbers are the only unbounded part, which the solver covers for all values.',
    },
}
