"""Which harness modules / lemmas decide which property (MANIFEST.json is generated from this)."""

HOOK_COMMITS = []
NOT_APPLICABLE = {}

CHECKS = {
    'C01': {
        'harnesses': ['harness.queue', 'harness.line_jobs'], 'lemmas': 'c01',
        'text': 'Bounded model checking of the real Environment/Event queue: every bounded sequence of schedule / schedule-in-the-past / '
                'pause / unpause / cancel / step / run operations, also issued from inside event actions, with symbolic assets, delays, '
                'priorities, run lengths and free tie-break weights, is explored path-exhaustively; an online reference queue checks that '
                'each dispatched event is minimal for (time, -priority), the clock equals its time and never decreases, past scheduling '
                'is rejected without effect, actions run at most once and run(d) executes exactly the live events due by t0+d.',
    },
    'C07': {
        'harnesses': ['harness.queue'], 'lemmas': 'c07',
        'text': 'Same harness as C01 restricted to schedule/pause/unpause/cancel/advance at non-zero symbolic times: after every operation '
                'the real pending and paused sets must equal the reference (paused events withheld, resumed at original time + pause length, '
                'cancelled events never run, later events unaffected, redundant calls no-ops), and after a final unpause-all + drain every '
                'never-cancelled event has run exactly once at its reference time.',
    },
    'C09': {
        'harnesses': ['harness.c09_pool'], 'lemmas': 'c09',
        'text': 'Bounded model checking of the real ResourceManager/ReservedResources: every sequence of N pool operations '
                '(add/reduce, reserve in both key orders incl. zero/negative/unknown entries, full/partial/repeated release, '
                'merge) with unbounded symbolic integer amounts is explored path-exhaustively by CrossHair+z3 and the '
                'property invariants are asserted after each operation. Right level: the state space is reachable in a few '
                'API calls and the numbers are the only unbounded part, which the solver covers for all values.',
    },
}

_LINE = ('Bounded model checking of real device models: each listed line model (real Source/PartHandler/PartProcessor/Buffer/Sink/... '
         'objects under the real event queue) is executed symbolically by CrossHair+z3 with all cycle times, delays and fault '
         'instants symbolic and every tie-break order, path-exhaustively within a CPU budget; ')
CHECKS.update({
    'C02': {'harnesses': ['harness.line_jobs'],
            'text': _LINE + 'after every executed event a census places every generated part in exactly one of {device slot, buffer, '
                    'batch under construction, sink, reported lost by one failure}, single-slot devices hold at most one part and '
                    'sources stay within their budget.'},
    'C03': {'harnesses': ['harness.line_jobs'],
            'text': _LINE + 'at every instant at which the clock is about to advance, every ready part (finished output of an operational '
                    'device, source output with budget, buffer head whose delay elapsed) is offered to its downstream list on a deep '
                    'copy of the whole system using the real give_part; an acceptance is a lost wake-up. An exception or an event '
                    'budget overrun in a well-posed run is reported as non-termination.'},
    'C05': {'harnesses': ['harness.line_jobs'], 'lemmas': 'c05',
            'text': _LINE + 'after every event level() equals the stored leaf parts and stays within capacity, departures are a prefix of '
                    'the previous content (FIFO) and happen no earlier than arrival + minimum delay (exact on the integer grid); the '
                    'IEEE-754 delay guard is a separate bit-precise lemma (cvc5, QF_BVFP).'},
    'C06': {'harnesses': ['harness.line_jobs'],
            'text': _LINE + 'an online remaining-time tracker per handler/processor (cycle time + one-shot offset floored at zero at acceptance, '
                    'stopped at an observed maintenance shutdown, re-armed at the observed restore) requires each part to reach the '
                    'output slot exactly when the remaining time hits zero, never while down, never twice, a failure to end in a loss; '
                    'source supplies and sink receipts are paced by their cycle times.'},
    'C13': {'harnesses': ['harness.line_jobs'],
            'text': _LINE + 'shutdown/restored callbacks (two per kind, order and multiplicity checked), is_operational(), the failure log, '
                    'lost parts, the finished part kept through a failure, no-op repeated shutdown/restore, uptime and utilization '
                    'against integrals accumulated online, and default work orders keeping the target down for exactly their duration.'},
})

CHECKS['C10'] = {
    'harnesses': ['harness.c10_waiters'],
    'text': 'Bounded model checking of the real ResourceManager waiting list on the real event queue: every bounded sequence of '
            'registrations (callbacks that log, reserve inside, or register another waiter), reservations, releases, capacity changes '
            'and clock advances with symbolic amounts; each availability-check event is compared with a reference scan (registration '
            'order, feasibility re-evaluated after every callback, each waiter at most once, arguments = manager and an equal copy of '
            'the request) and at every clock advance no registered waiter may be feasible.',
}

CHECKS['C12'] = {
    'harnesses': ['harness.c12_maintainer'], 'lemmas': 'c12',
    'text': 'Bounded model checking of the real Maintainer on the real event queue: every (target, tag) assignment of R requests issued at '
            'symbolic instants (bursts included, one from inside a start_work hook) with symbolic capacity, needed capacities, durations '
            'and costs; an online acceptor re-scans its queue in request order at each observed request and finish, and requires that exactly '
            'the orders it selects start at that instant, last exactly their duration, never exceed capacity or double-book a target, call '
            'the hooks once, charge the cost once, and that nothing startable is left waiting when time advances.',
}

CHECKS['C18'] = {
    'harnesses': ['harness.c18_scheduler'],
    'text': 'Bounded model checking of the real ActionScheduler: timetables of up to 3 entries with symbolic durations (zero included), '
            'cyclical default/True/False, register/unregister operations from other events at symbolic instants, symbolic horizon; the '
            'k-th schedule_update record must lie exactly at the k-fold prefix sum (a z3 term) with the prescribed state, one action per '
            'currently registered object in registration order with (scheduler, object, now, state), and when time advances no due '
            'change may be outstanding.',
}

CHECKS['C19'] = {
    'harnesses': ['harness.c19_sensors'], 'lemmas': 'c19',
    'text': 'Bounded model checking of the real PeriodicSensor / OutputPartSensor / Cms: symbolic interval, horizon, attribute-change instant and '
            'values, data capacities 1..3 and unbounded; the k-th measurement must lie at k*interval, store copies of the probed values of that '
            'moment, call both callbacks once in order, keep every probe series and the time series at the most recent min(count, c) aligned '
            'entries, reach a doubly registered Cms once; the output-part sensor must measure the first finished part and every (n+1)-th.',
}

CHECKS['C20'] = {
    'harnesses': ['harness.c20_lifecycle'],
    'text': 'Bounded model checking of System/Asset lifecycle on the real classes: enumerated sequences of system creation, asset creation '
            'and simulate calls (registration with the latest system, RuntimeError for an outdated one, exactly one initialisation, '
            'find_assets against a reference filter) and, for every Asset class found by introspection, a cell created at a symbolic '
            'instant from inside an event or between two simulate calls whose observations must equal those of a twin created before the '
            'start, shifted by the creation instant.',
}

CHECKS.update({
    'C04': {'harnesses': ['harness.line_jobs'], 'lemmas': 'c04', 'grid_replay': True,
            'text': _LINE + 'for every listed station-kind assignment, capacity and zero pattern the recorded entry instants of every part at '
                    'every station are compared with the blocking-after-service recurrence D(j,k) built as z3 max-terms over the symbolic '
                    'cycle times and delays; equality must be valid on every path, i.e. for every tie-break order.'},
    'C11': {'harnesses': ['harness.line_jobs'],
            'text': _LINE + 'after every event a processor with a part in process must hold exactly its declared amounts, each pool usage must '
                    'equal the sum of the declarations of the holders (plus external holders), a failed processor holds nothing, a processor in '
                    'maintenance with a part keeps its resources, and when time advances no idle operational processor holds any.'},
    'C15': {'harnesses': ['harness.line_jobs'], 'lemmas': 'c15',
            'text': _LINE + 'after every event the last level / resource_update records equal the live state, record counts equal the occurrences '
                    'observed through callbacks and state transitions (received, produced, supplied, failure, work orders), records carry the '
                    'current time and the part id/quality/value of that moment, device counters equal record counts, and an enabled trace '
                    '(file export stubbed) lists exactly the dispatched events in order, exported once per run.'},
    'C16': {'harnesses': ['harness.line_jobs'],
            'text': _LINE + 'with symbolic part values, processing value changes and work-order costs: after every event each asset value equals '
                    'its starting value plus its history, entries are (label, now, non-zero delta, running total), source value = -sum of '
                    'supplied values, sink value = sum of values at receipt, maintainer value drops by started-order costs, batch = sum of '
                    'parts, net value = sum over registered assets.'},
})

CHECKS.update({
    'C08': {'harnesses': ['harness.line_jobs'],
            'text': _LINE + 'models with fan-out, complementary gates, a re-entrant shared group, two paths through a two-device group, a nested '
                    'group and blocked inputs toggled at symbolic instants: after every event each part\'s routing history must be a walk of '
                    'the route graph derived from the model specification (group exit through the innermost entered path), equal the devices '
                    'that actually received it, satisfy every gate it lists, never enter a blocked input, sinks collect in arrival order and '
                    'the longest-idle parallel device receives the part.'},
    'C17': {'harnesses': ['harness.line_jobs'],
            'text': _LINE + 'Source (single parts and batches of symbolic size 0-3) -> PartBatcher(n or single) -> Buffer/handler -> Sink with '
                    'downstream blocking: emitted batches have exactly n parts, the concatenated leaf sequence leaving is a prefix of the one '
                    'arriving at every instant, the batcher content is the not-yet-emitted suffix in order, no input is accepted while unpacking, '
                    'buffer level and census count leaves, routing-history updates reach contained parts.'},
})

CHECKS['C14'] = {
    'harnesses': ['harness.c14_repro'],
    'text': 'Bounded model checking on real models where tie-breaks decide outcomes (merge into a capacity-1 buffer, fan-out to equal machines): '
            '(a) the model is run twice in one symbolic path, the second run replaying the same symbolic weights from a symbolic asset-id '
            'offset, and all recorded data, counters and the final clock must agree after subtracting the offset from id fields; (b) run(a); '
            'run(b) against run(a+b) for a symbolic split point with weights attached by event creation order; (c) simulate_multiple_times '
            'under a synchronous executor stub: one system per index, in index order, equal to the in-process results. Real worker processes '
            'are outside (stated).',
}

_T = 'bounded symbolic execution of the real classes (CrossHair + z3): path-exhaustive over ordering classes of the symbolic numbers within the stated bound; counterexamples and sample paths replayed on CPython'
TECHNIQUE = {
    'C01': _T + '; plus AST->SMT translation of Event.__lt__ with six order lemmas discharged unbounded by z3 and cvc5',
    'C07': _T + '; plus AST->SMT translation of the unpause shift statement, three lemmas over the reals (z3, cvc5)',
    'C05': _T + '; plus AST->SMT (QF_BVFP) translation of the IEEE-754 delay guard, 2-ulp bound proved by cvc5 (1-ulp version shown sat)',
    'C19': _T + '; plus a QF_FP query (z3) for float intervals on which k*iv differs from repeated addition, replayed on the real sensor (witness check)',
    'C09': _T + '; plus QF_FP queries (z3) for fractional amounts whose add/subtract round trip leaves a residue, replayed on the real ResourceManager (witness check)',
    'C15': _T + '; plus QF_FP queries (z3) for fractional amounts with an inexact sum, replayed on the real ResourceManager and its records (witness check)',
    'C12': _T + '; plus QF_FP queries (z3) for fractional needed capacities whose add/subtract round trip is inexact, replayed on the real Maintainer (witness check)',
    'C14': _T + '; the second run / the unsplit run replays the same symbolic tie-break weights; object hashes controlled by the harness',
    'C04': _T + '; reference recurrence built as z3 max-terms and compared by validity queries',
}
for _k, _v in CHECKS.items():
    _v.setdefault('technique', TECHNIQUE.get(_k, _T))
