"""Concrete replay on plain CPython (no CrossHair import).

usage: python -m engine.replay <replay.json> [--json out.json] [--profile]

<replay.json> is either one case {harness, shape, args, weights, label?} or
{"cases": [...]}.  Exit status for a single case: 0 = the recorded violation
label reproduced, 2 = it did not.  With --json, the outcome of every case
(outcome, label, goals, repository functions executed) is written out.
"""
import importlib
import json
import sys
import traceback


def run_case(case, profile=False):
    from engine import stubs
    from engine.ctx import Ctx, PropertyViolation, Truncated
    stubs.install(symbolic=False)
    harness = importlib.import_module(case['harness'])
    stubs.reset_globals()
    ctx = Ctx(False, weights=case.get('weights') or [])
    stubs.set_ctx(ctx)
    funcs = set()

    def prof(frame, event, arg):
        if event == 'call':
            fn = frame.f_code.co_filename
            if '/simprocesd/' in fn and '/tests/' not in fn:
                funcs.add(fn.split('/simprocesd/')[-1] + ':' + frame.f_code.co_qualname)
    out = {'outcome': 'ok', 'label': None, 'detail': ''}
    if profile:
        sys.setprofile(prof)
    try:
        args = dict(case['args'])
        if case.get('time_scale'):
            # the same path on a dyadic float grid: every parameter (all are times in the analyses that use this) is multiplied
            # by a power of two, so every sum and difference the simulator forms is still exact
            args = {k: (v * case['time_scale'] if isinstance(v, (int, float)) and not isinstance(v, bool) else v) for k, v in args.items()}
        harness.run(case.get('shape', {}), args, ctx)
    except PropertyViolation as v:
        out.update(outcome='violation', label=v.label, detail=str(v.detail)[:2000])
    except Truncated:
        out.update(outcome='truncated')
    except Exception as e:
        out.update(outcome='aborted', detail=f'{type(e).__name__}: {e} | ' +
                   ' | '.join(traceback.format_exc().splitlines()[-6:]))
    finally:
        if profile:
            sys.setprofile(None)
    if out['outcome'] == 'aborted' and ctx.pending_violation is not None:
        out.update(outcome='violation', label=ctx.pending_violation[0], detail=str(ctx.pending_violation[1])[:2000])
    out['goals'] = sorted(ctx.goals)
    out['functions'] = sorted(funcs)
    out['counters'] = dict(ctx.counters)
    return out


def main(argv):
    path = argv[1]
    data = json.load(open(path))
    profile = '--profile' in argv
    if 'cases' in data:
        results = [run_case(c, profile) for c in data['cases']]
    else:
        results = [run_case(data, profile)]
    if '--json' in argv:
        with open(argv[argv.index('--json') + 1], 'w') as f:
            json.dump(results, f)
    if 'cases' not in data:
        r = results[0]
        want = data.get('label')
        print(f"replay outcome={r['outcome']} label={r['label']!r} detail={r['detail']!r}")
        if r['outcome'] == 'violation' and (want is None or want == r['label']):
            print(f"REPRODUCED property={data.get('property')} label={r['label']!r}")
            return 0
        if r['outcome'] == 'violation':
            print(f"REPRODUCED-DIFFERENT-LABEL wanted={want!r}")
            return 0
        print('NOT-REPRODUCED')
        return 2
    return 0


if __name__ == '__main__':
    sys.exit(main(sys.argv))
