"""Environment stubs S1-S7 (DESIGN.md section 4.3).  Every stub rebinds a *name in
a repository module's namespace*; no repository source is edited or copied."""
import builtins

_current_ctx = None


def set_ctx(ctx):
    global _current_ctx
    _current_ctx = ctx


class _RandomProxy:
    """S1: stands in for the ``random`` module inside simulation.py."""

    def random(self):
        return _current_ctx.rng.random()


class _Eps:
    """S2: the value of ``np.nextafter(now, inf) - now`` for an integer-valued
    clock: some real in (0, 1).  Only comparisons with integers are defined."""

    def __lt__(self, other):   # eps < r  <=>  r >= 1   (r integer)
        return other >= 1

    def __le__(self, other):
        return other >= 1

    def __gt__(self, other):   # eps > r  <=>  r <= 0
        return other <= 0

    def __ge__(self, other):
        return other <= 0


class _Next:
    def __init__(self, x):
        self.x = x

    def __sub__(self, other):
        return _Eps()


class _NpStub:
    inf = float('inf')

    @staticmethod
    def nextafter(x, towards):
        return _Next(x)


INF_SENTINEL = 10 ** 30


def _float_stub(x=0.0):
    if isinstance(x, str) and x == 'inf':
        return INF_SENTINEL
    return builtins.float(x)


class _TimeStub:
    @staticmethod
    def time():
        return 0.0


def _silent_print(*a, **k):
    pass


_saved = {}


def install(symbolic):
    """Install the stubs.  S1 always (the replayer feeds recorded weights through
    it); S2, S3 only in symbolic runs (the replayer uses numpy and float)."""
    import simprocesd.model.simulation as sim
    import simprocesd.model.system as system
    import simprocesd.model.resource_manager as rm
    import simprocesd.model.factory_floor.buffer as buf
    import simprocesd.model.factory_floor.part_flow_controller as pfc
    if 'done' in _saved:
        return
    _saved['done'] = True
    sim.random = _RandomProxy()                       # S1
    sim.print = _silent_print                         # S7 diagnostics only
    rm.print = _silent_print                          # S7
    try:
        del rm.ReservedResources.__del__              # S7 (__del__ only prints)
    except AttributeError:
        pass
    system.time = _TimeStub()                         # S4 wall clock, only printed
    if symbolic:
        buf.np = _NpStub()                            # S2
        pfc.float = _float_stub                       # S3
        # S9: formatting a symbolic number into a message string yields a placeholder instead of
        # enumerating its values (the repository only formats numbers into error/debug messages)
        from crosshair.libimpl import builtinslib
        from crosshair import opcode_intercept as oi
        from crosshair.tracers import NoTracing
        builtinslib.SymbolicNumberAble.__format__ = lambda self, fmt: '<sym>'

        def is_sym_num(v):
            with NoTracing():
                return isinstance(v, builtinslib.SymbolicNumberAble)

        def wrap(name):
            orig = getattr(oi.FormatStashingValue, name)

            def f(self, *a):
                if is_sym_num(self.value):
                    self.formatted = '<sym>'
                    return ''
                return orig(self, *a)
            setattr(oi.FormatStashingValue, name, f)
        for n in ('__format__', '__str__', '__repr__'):
            wrap(n)


STUB_TEXT = [
    'S1 tie-break source: simulation.random -> fresh symbolic Int per event (pairwise distinct unless stated free)',
    'S2 buffer.np.nextafter(now,inf)-now -> an Eps comparing like a real in (0,1) against integers (integer clock)',
    "S3 part_flow_controller.float('inf') -> 10**30 sentinel (times kept below 10**12)",
    'S4 system.time -> constant (only printed)',
    'S9 f-string formatting of a symbolic number yields the placeholder "<sym>" (messages are never compared)',
    'S7 print in simulation.py/resource_manager.py and ReservedResources.__del__ (diagnostic printing only) silenced',
]


def reset_globals():
    """A4: process-global counters are reset at the start of every path."""
    from simprocesd.model.factory_floor.asset import Asset
    from simprocesd.model.system import System
    Asset._id_counter = 0
    System._instance = None
