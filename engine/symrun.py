"""Check driver: generates the jobs of a property for a tier, runs them (one
CrossHair/z3 process per job, up to NPROC at a time), replays counterexamples
and sample paths on plain CPython, classifies against known_findings.json,
writes /verif/evidence/<id>.json and prints the verdict lines.

exit 0 = held on everything explored (KNOWN-FINDING / INCONCLUSIVE lines possible)
exit 1 = replayed violation not listed as known
exit 3 = harness error (counterexample did not replay, worker crashed, vacuity)
"""
import concurrent.futures as cf
import hashlib
import importlib
import json
import os
import shutil
import subprocess
import sys
import time

ROOT = os.path.dirname(os.path.dirname(os.path.abspath(__file__)))
VENV_PY = os.path.join(ROOT, '.venv', 'bin', 'python')
PLAIN_PY = '/venv/bin/python'
NPROC = int(os.environ.get('VERIF_NPROC', os.cpu_count() or 4))


def _env():
    e = dict(os.environ)
    e['PYTHONPATH'] = ROOT + os.pathsep + os.environ.get('VERIF_REPO', '/repo')
    e['PYTHONDONTWRITEBYTECODE'] = '1'
    e['PYTHONHASHSEED'] = '0'
    return e


def ensure_venv():
    if not os.path.exists(VENV_PY):
        subprocess.run(['sh', os.path.join(ROOT, 'setup.sh')], check=True, cwd=ROOT)


def load_known():
    p = os.path.join(ROOT, 'known_findings.json')
    if not os.path.exists(p):
        return []
    return json.load(open(p)).get('findings', [])


def run_job(job, workdir):
    jd = os.path.join(workdir, job['name'])
    os.makedirs(jd, exist_ok=True)
    jp, op = os.path.join(jd, 'job.json'), os.path.join(jd, 'out.json')
    with open(jp, 'w') as f:
        json.dump(job, f)
    t0 = time.time()
    limit = job.get('timeout', 120) * 1.5 + 60
    try:
        p = subprocess.run([VENV_PY, '-m', 'engine.worker', jp, op], cwd=ROOT, env=_env(),
                           capture_output=True, text=True, timeout=limit)
        err = p.stderr[-1500:]
    except subprocess.TimeoutExpired:
        err = 'worker wall-clock limit'
    if os.path.exists(op):
        r = json.load(open(op))
    else:
        r = {'job': job['name'], 'verdict': 'error', 'messages': [{'state': 'NO_OUTPUT', 'message': err}],
             'paths': 0, 'samples': [], 'failure': None, 'analyses': len(job.get('subs', [1])), 'analyses_confirmed': 0, 'z3_queries': 0, 'z3_time': 0, 'goal_counts': {},
             'nontrivial_paths': 0, 'counters': {}, 'cpu_s': 0, 'aborted': 0, 'truncated': 0, 'ok_paths': 0,
             'abort_samples': []}
    r['wall_s'] = round(time.time() - t0, 2)
    r['spec'] = job
    return r


def run_lemmas(group, tier, workdir):
    out = os.path.join(workdir, f'lemmas-{group}.json')
    try:
        p = subprocess.run([VENV_PY, '-m', 'engine.kernels', group, out, workdir], cwd=ROOT, env=_env(),
                           capture_output=True, text=True, timeout=1200)
        if os.path.exists(out):
            return json.load(open(out))
        return [{'name': group, 'status': 'error', 'detail': 'lemma process wrote nothing: ' + p.stderr[-500:]}]
    except subprocess.TimeoutExpired:
        return [{'name': group, 'status': 'inconclusive', 'detail': 'lemma process timed out'}]


def replay_cases(cases, workdir, tag, profile=True):
    if not cases:
        return []
    cp = os.path.join(workdir, f'cases-{tag}.json')
    rp = os.path.join(workdir, f'cases-{tag}.out.json')
    with open(cp, 'w') as f:
        json.dump({'cases': cases}, f)
    cmd = [PLAIN_PY, '-m', 'engine.replay', cp, '--json', rp] + (['--profile'] if profile else [])
    try:
        p = subprocess.run(cmd, cwd=ROOT, env=_env(), capture_output=True, text=True, timeout=600)
    except subprocess.TimeoutExpired:
        return None
    if not os.path.exists(rp):
        sys.stderr.write(p.stderr[-2000:])
        return None
    return json.load(open(rp))


def check_property(prop, tier, spec):
    """spec: {'harnesses': [module names], 'lemmas': callable or None, 'level_note'...}"""
    ensure_venv()
    t0 = time.time()
    seed = int(os.environ.get('VERIF_SEED', '0') or 0)
    workdir = os.path.join(ROOT, '.work', f'{prop}-{os.getpid()}')
    os.makedirs(workdir, exist_ok=True)
    os.makedirs(os.path.join(ROOT, 'evidence'), exist_ok=True)
    os.makedirs(os.path.join(ROOT, 'replays'), exist_ok=True)
    known = [k for k in load_known() if k.get('property') == prop]
    lines, violations, known_hits, harness_errors, inconclusive = [], [], [], [], []
    try:
        jobs = []
        modules = {}
        for hn in spec['harnesses']:
            mod = importlib.import_module(hn)
            modules[hn] = mod
            for j in mod.jobs(tier, prop) if _takes_prop(mod) else mod.jobs(tier):
                j = dict(j)
                j['harness'] = hn
                if 'subs' not in j:
                    j['subs'] = [{'name': j['name'], 'shape': j.get('shape', {}), 'params': j['params'],
                                  'pre': j.get('pre', [])}]
                j['subs'] = [dict(sb, shape=dict(sb.get('shape', {}), prop=prop)) for sb in j['subs']]
                jobs.append(j)
        names = [j['name'] for j in jobs]
        assert len(set(names)) == len(names), 'duplicate job names'
        jobs.sort(key=lambda j: -j.get('timeout', 120))
        results = []
        lemma_future = None
        with cf.ThreadPoolExecutor(max_workers=NPROC) as ex:
            if spec.get('lemmas'):
                lemma_future = ex.submit(run_lemmas, spec['lemmas'], tier, workdir)
            for r in ex.map(lambda j: run_job(j, workdir), jobs):
                results.append(r)
        lemma_results = lemma_future.result() if lemma_future else []

        # ---- counterexamples: replay, classify ---------------------------
        refuted = [r for r in results if r['verdict'] == 'refuted']
        seen_labels, first, later = set(), [], []
        for r in refuted:
            (later if r['failure']['label'] in seen_labels else first).append(r)
            seen_labels.add(r['failure']['label'])
        to_replay = (first + later)[:8]     # distinct assertions first; the rest is counted, not printed
        skipped_refuted = len(refuted) - len(to_replay)
        for r in results:
            if r['verdict'] == 'refuted' and r not in to_replay:
                continue
            if r['verdict'] == 'refuted':
                f = r['failure']
                case = {'property': prop, 'harness': r['spec']['harness'], 'shape': f['shape'],
                        'args': f['args'], 'weights': f['weights'], 'label': f['label'], 'detail': f['detail'],
                        'job': r['job'], 'analysis': f.get('sub')}
                h = hashlib.sha1(json.dumps(case, sort_keys=True).encode()).hexdigest()[:10]
                rpath = os.path.join(ROOT, 'replays', f'{prop}-{r["job"]}-{h}.json')
                with open(rpath, 'w') as fp:
                    json.dump(case, fp, indent=1)
                p = subprocess.run([PLAIN_PY, '-m', 'engine.replay', rpath], cwd=ROOT, env=_env(),
                                   capture_output=True, text=True, timeout=600)
                r['replay'] = {'path': rpath, 'rc': p.returncode, 'out': p.stdout[-600:]}
                if p.returncode != 0:
                    harness_errors.append(f'counterexample of job {r["job"]} ({f["label"]}) did not replay: '
                                          f'{p.stdout[-300:]} {p.stderr[-300:]}')
                    continue
                sig = modules[r['spec']['harness']].signature(f) if hasattr(modules[r['spec']['harness']], 'signature') else f['label']
                hit = next((k for k in known if k.get('status') == 'known' and k.get('signature') == sig), None)
                if hit:
                    known_hits.append((hit, rpath))
                else:
                    violations.append((r['job'], f['label'], f['detail'], rpath))
            elif r['verdict'] in ('error', 'pre_unsat'):
                harness_errors.append(f'job {r["job"]}: {r["verdict"]}: {r["messages"]}')
            elif r['verdict'] == 'inconclusive':
                why = 'budget exhausted before the search tree: ' + ','.join(r.get('analyses_inconclusive', [])[:5])
                if r.get('aborted'):
                    why = f'{r["aborted"]} path(s) aborted by an exception in the code under test: ' + \
                          (r['abort_samples'][0]['detail'][:300] if r.get('abort_samples') else '')
                elif r.get('truncated'):
                    why = f'{r["truncated"]} path(s) reached the event budget'
                inconclusive.append((r['job'], why))
        for lr in lemma_results:
            if lr['status'] == 'violated':
                hit = next((k for k in known if k.get('status') == 'known' and k.get('signature') == lr['name']), None)
                if hit:
                    known_hits.append((hit, lr.get('replay')))
                else:
                    violations.append((lr['name'], lr['name'], lr.get('detail', ''), lr.get('replay')))
            elif lr['status'] == 'error':
                harness_errors.append(f'lemma {lr["name"]}: {lr.get("detail")}')
            elif lr['status'] == 'inconclusive':
                inconclusive.append((lr['name'], lr.get('detail', '')))

        # ---- sample paths: replay concretely, compare goals ------------------
        cases, expect = [], []
        for r in results:
            for s in r.get('samples', [])[:spec.get('samples_per_job', 2)]:
                if s['args'] is None:
                    continue
                cases.append({'harness': r['spec']['harness'], 'shape': s['shape'], 'args': s['args'],
                              'weights': s['weights']})
                expect.append((r['job'], s))
        cases, expect = cases[:200], expect[:200]
        rep = replay_cases(cases, workdir, 'samples')
        validated, functions = 0, set()
        if rep is None:
            harness_errors.append('sample replay crashed')
            rep = []
        for (job, s), rr in zip(expect, rep):
            functions.update(rr.get('functions', []))
            if rr['outcome'] == 'ok' and set(s['goals']) <= set(rr['goals']):
                validated += 1
            elif rr['outcome'] == 'violation':
                # the solver-generated values of a path that the engine considered fine violate the property when run on
                # plain CPython (the engine's model of some built-in, e.g. set iteration order, differs from CPython's):
                # a concrete execution of the real code is a counterexample in its own right
                case = {'property': prop, 'harness': next(r['spec']['harness'] for r in results if r['job'] == job),
                        'shape': s['shape'], 'args': s['args'], 'weights': s['weights'], 'label': rr['label'],
                        'detail': rr.get('detail', ''), 'job': job, 'analysis': s.get('sub'),
                        'found_by': 'concrete replay of a solver-generated sample path'}
                h = hashlib.sha1(json.dumps(case, sort_keys=True).encode()).hexdigest()[:10]
                rpath = os.path.join(ROOT, 'replays', f'{prop}-{job}-{h}.json')
                with open(rpath, 'w') as fp:
                    json.dump(case, fp, indent=1)
                p = subprocess.run([PLAIN_PY, '-m', 'engine.replay', rpath], cwd=ROOT, env=_env(), capture_output=True, text=True, timeout=600)
                if p.returncode == 0:
                    violations.append((job, rr['label'], rr.get('detail', '') + ' [found by replaying a sample path on CPython]', rpath))
                else:
                    harness_errors.append(f'sample path of job {job}: violation on replay did not reproduce')
            elif not violations:
                harness_errors.append(f'sample path of job {job} does not replay identically: symbolic goals '
                                      f'{s["goals"]} vs concrete {rr["outcome"]} {rr.get("label")} {rr["goals"]} '
                                      f'args={s["args"]} weights={s["weights"]} {rr.get("detail", "")[:300]}')

        # ---- the same sample paths on a dyadic float grid (properties that claim exactness on representable grids) ----
        grid_validated = 0
        if spec.get('grid_replay') and not violations:
            scale = 2.0 ** -20
            gcases = [dict(c, time_scale=scale) for c in cases]
            grep_ = replay_cases(gcases, workdir, 'grid', profile=False) or []
            for (job, s), c, rr in zip(expect, gcases, grep_):
                if rr['outcome'] == 'ok':
                    grid_validated += 1
                elif rr['outcome'] == 'violation':
                    case = dict(c, property=prop, label=rr['label'], detail=rr.get('detail', ''), job=job, analysis=s.get('sub'),
                                found_by='concrete replay of a solver-generated sample path with all times multiplied by 2**-20')
                    h = hashlib.sha1(json.dumps(case, sort_keys=True).encode()).hexdigest()[:10]
                    rpath = os.path.join(ROOT, 'replays', f'{prop}-{job}-grid-{h}.json')
                    with open(rpath, 'w') as fp:
                        json.dump(case, fp, indent=1)
                    p = subprocess.run([PLAIN_PY, '-m', 'engine.replay', rpath], cwd=ROOT, env=_env(), capture_output=True, text=True, timeout=600)
                    if p.returncode == 0:
                        violations.append((job, rr['label'], rr.get('detail', '') + ' [found by replaying a sample path on CPython with all '
                                           'times multiplied by 2**-20 (exactly representable grid)]', rpath))
                        break

        # ---- vacuity ------------------------------------------------------------
        reached = {}
        for r in results:
            for g, n in r.get('goal_counts', {}).items():
                reached[g] = reached.get(g, 0) + n
        required = set()
        for hn, mod in modules.items():
            req = getattr(mod, 'required_goals', None)
            if req:
                required |= set(req(tier, prop) if _takes_prop(mod) else req(tier))
        missing = sorted(required - set(reached))
        if missing and not violations and not any(r['verdict'] == 'refuted' for r in results):
            harness_errors.append(f'vacuity: goals never reached: {missing}')

        # ---- evidence -----------------------------------------------------------
        paths = sum(r.get('paths', 0) for r in results)
        decided = [r for r in results if r['verdict'] in ('confirmed', 'refuted')]
        lem_ok = [l for l in lemma_results if l['status'] == 'proved']
        exhaustive = (len(decided) == len(results)) and all(l['status'] in ('proved', 'violated') for l in lemma_results)
        samples = []
        for r in results[:]:
            for s in r.get('samples', [])[:1]:
                samples.append({'job': r['job'], 'analysis': s.get('sub'), 'shape': s['shape'], 'args': s['args'],
                                'tie_break_weights': s['weights'], 'goals': s['goals']})
        samples = samples[:12]
        for l in lemma_results[:4]:
            samples.append({'lemma': l['name'], 'status': l['status'], 'queries': l.get('queries'),
                            'solver': l.get('solver'), 'detail': l.get('detail', '')[:300]})
        if not samples:
            samples = [{'note': 'no completed path'}]
        encoded = set()
        for mod in modules.values():
            encoded.update(getattr(mod, 'ENCODED', []))
        from engine import stubs
        assumptions = list(stubs.STUB_TEXT)
        bounds = []
        for mod in modules.values():
            assumptions += list(getattr(mod, 'ASSUMPTIONS', []))
            b = getattr(mod, 'bounds_text', None)
            if b:
                bounds.append(b(tier, prop) if _takes_prop(mod) else b(tier))
        for l in lemma_results:
            assumptions += l.get('assumptions', [])
        events = sum(r.get('counters', {}).get('events', 0) + r.get('counters', {}).get('ops', 0) for r in results)
        checks = sum(r.get('counters', {}).get('checks', 0) for r in results)
        ev = {
            'property_id': prop, 'tier': tier, 'seed': seed, 'level': 'model_checking',
            'coverage': {
                'states': max(1, paths + events),
                'transitions': max(1, events),
                'traces_validated_against_impl': validated,
                'samples': samples,
                'evaluations': max(1, paths),
                'distinct_nontrivial': sum(r.get('nontrivial_paths', 0) for r in results),
                'rule': 'each evaluation is one path of CrossHair\'s search tree = one ordering class of the symbolic '
                        'numbers, decided by z3 for all values in the class; distinct by construction (different branch '
                        'decisions); non-trivial = at least one coverage goal of the harness was reached on it. '
                        'states = symbolic states at which the monitors were evaluated (initial state of every path + one per '
                        'executed event/operation), transitions = executed events/operations over all paths.',
                'exhaustive': bool(exhaustive),
                'analyses': sum(r.get('analyses', 1) for r in results),
                'analyses_confirmed': sum(r.get('analyses_confirmed', 0) for r in results),
                'jobs': len(results), 'jobs_confirmed': sum(r['verdict'] == 'confirmed' for r in results),
                'jobs_refuted': sum(r['verdict'] == 'refuted' for r in results),
                'jobs_inconclusive': len([r for r in results if r['verdict'] == 'inconclusive']),
                'paths': paths, 'monitor_assertions_evaluated': checks,
                'z3_queries': sum(r.get('z3_queries', 0) for r in results) + sum(l.get('queries', 0) or 0 for l in lemma_results),
                'solver_s': round(sum(r.get('z3_time', 0) for r in results) + sum(l.get('solver_s', 0) or 0 for l in lemma_results), 2),
                'cpu_s': round(sum(r.get('cpu_s', 0) for r in results), 1),
                'functions_encoded_declared': sorted(encoded),
                'functions_executed_in_replayed_samples': sorted(functions),
                'bounds': bounds,
                'goals_reached': reached,
                'goals_required': sorted(required),
                'lemmas': [{k: v for k, v in l.items() if k != 'assumptions'} for l in lemma_results],
                'per_job': [{'job': r['job'], 'verdict': r['verdict'], 'paths': r.get('paths', 0),
                             'cpu_s': r.get('cpu_s'), 'z3_queries': r.get('z3_queries')} for r in results],
                'heaviest_analyses': sorted((h for r in results for h in r.get('heaviest', [])), key=lambda h: -h['cpu_s'])[:10],
                'sample_paths_replayed_on_dyadic_float_grid': grid_validated,
                'per_analysis': sorted((a for r in results for a in r.get('analysis_stats', [])), key=lambda a: a['name']),
                'inconclusive': [{'job': j, 'why': w} for j, w in inconclusive],
                'known_findings_seen': [k[0].get('id') for k in known_hits],
            },
            'assumptions': assumptions,
            'wall_s': round(time.time() - t0, 2),
            'violations': len(violations),
        }
        # evidence describes /repo; a run against a scratch tree (selftest, seeded changes) leaves it alone
        scratch = os.path.realpath(os.environ.get('VERIF_REPO', '/repo')) != os.path.realpath('/repo')
        evdir = os.path.join(ROOT, '.work', 'scratch-evidence') if scratch else os.path.join(ROOT, 'evidence')
        os.makedirs(evdir, exist_ok=True)
        with open(os.path.join(evdir, f'{prop}.json'), 'w') as f:
            json.dump(ev, f, indent=1)

        # ---- verdict lines --------------------------------------------------------
        for hit, rpath in known_hits:
            print(f'KNOWN-FINDING: property={prop} {hit.get("what")} [id={hit.get("id")}] replay={rpath}')
        for j, w in inconclusive:
            print(f'INCONCLUSIVE: property={prop} job={j} {w}')
        for e in harness_errors:
            print(f'HARNESS-ERROR: property={prop} {e}')
        for job, label, detail, rpath in violations:
            print(f'VIOLATION property={prop} replay={rpath}')
            print(f'  job={job} assertion={label!r} {detail}')
        print(f'{prop} {tier}: analyses={ev["coverage"]["analyses_confirmed"]}/{ev["coverage"]["analyses"]} jobs={len(results)} confirmed={ev["coverage"]["jobs_confirmed"]} '
              f'refuted={ev["coverage"]["jobs_refuted"]} inconclusive={ev["coverage"]["jobs_inconclusive"]} '
              f'paths={paths} z3_queries={ev["coverage"]["z3_queries"]} solver_s={ev["coverage"]["solver_s"]} '
              f'lemmas={len(lem_ok)}/{len(lemma_results)} validated_samples={validated} wall={ev["wall_s"]}s')
        if skipped_refuted:
            print(f'  (+{skipped_refuted} further refuted jobs not replayed)')
        if violations:
            return 1
        if harness_errors:
            return 3
        return 0
    finally:
        shutil.rmtree(workdir, ignore_errors=True)


def _takes_prop(mod):
    import inspect
    return len(inspect.signature(mod.jobs).parameters) >= 2
