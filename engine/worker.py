"""One symbolic job = one process.  A job is a list of *analyses* (sub-jobs): for
each, the harness function for that bound is generated, handed to CrossHair (z3),
and verdict and statistics are collected.  Output: one JSON document.

usage: python -m engine.worker <job.json> <out.json>
"""
import collections
import importlib
import json
import os
import sys
import threading
import time
import traceback

STATE = None


class _State:
    def __init__(self, job):
        self.job = job
        self.harness = importlib.import_module(job['harness'])
        self.shape = {}
        self.weights_mode = job.get('weights', 'distinct')
        self.paths = 0
        self.ok_paths = 0
        self.truncated = 0
        self.aborted = 0
        self.abort_samples = []
        self.goal_counts = collections.Counter()
        self.goal_sets = set()
        self.nontrivial = 0
        self.samples = []
        self.sample_keys = set()
        self.failure = None
        self.counters = collections.Counter()
        self.z3_queries = 0
        self.z3_time = 0.0
        self.sub = None
        self.subs_done = []


def _model_values(items, weights):
    """Concrete values for the symbolic ints of this path, from a z3 model of the
    path condition.  Does not touch CrossHair's search tree."""
    from crosshair.statespace import context_statespace
    import z3
    space = context_statespace()
    if space.solver.check() != z3.sat:
        return None, None
    model = space.solver.model()

    def val(v):
        var = getattr(v, 'var', None)
        if var is None:
            return v if type(v) in (int, bool) else int(v)
        r = model.eval(var, model_completion=True)
        if z3.is_int_value(r):
            return r.as_long()
        if z3.is_true(r):
            return True
        if z3.is_false(r):
            return False
        return str(r)
    return {k: val(v) for k, v in items}, [val(w) for w in weights]


def drive(items):
    """Body of the generated harness function (runs under CrossHair tracing)."""
    from crosshair.tracers import NoTracing
    from engine import stubs
    from engine.ctx import Ctx, PropertyViolation, Truncated
    st = STATE
    with NoTracing():
        st.paths += 1
        stubs.reset_globals()
        ctx = Ctx(True, st.weights_mode)
        stubs.set_ctx(ctx)
    outcome, label, detail = 'ok', None, ''
    try:
        st.harness.run(st.shape, dict(items), ctx)
    except PropertyViolation as v:
        outcome, label, detail = 'violation', v.label, v.detail
    except Truncated:
        outcome = 'truncated'
    except Exception as e:  # CrossHair's control-flow exceptions are BaseException
        with NoTracing():
            outcome = 'aborted'
            tb = traceback.format_exc().splitlines()
            detail = f'{type(e).__name__}: ' + ' | '.join(tb[-8:])
    with NoTracing():
        if outcome == 'aborted' and ctx.pending_violation is not None:
            # the violation was raised inside an event and the simulator's error reporting replaced it by its own exception
            outcome, (label, detail) = 'violation', ctx.pending_violation
        st.counters.update(ctx.counters)
        sub = st.sub['name']
        if outcome == 'violation':
            args, weights = _model_values(items, ctx.rng.handed)
            st.failure = {'label': label, 'detail': str(detail)[:2000], 'args': args, 'sub': sub,
                          'shape': st.shape, 'weights': weights, 'goals': sorted(ctx.goals)}
            return False
        if outcome == 'truncated':
            st.truncated += 1
        elif outcome == 'aborted':
            st.aborted += 1
            if len(st.abort_samples) < 3:
                args, weights = _model_values(items, ctx.rng.handed)
                st.abort_samples.append({'detail': detail[:1500], 'args': args, 'weights': weights, 'sub': sub,
                                         'shape': st.shape})
        else:
            st.ok_paths += 1
        gs = frozenset(ctx.goals)
        for g in gs | ctx.soft_goals:
            st.goal_counts[g] += 1
        st.goal_sets.add((sub, gs))
        if gs or ctx.soft_goals:
            st.nontrivial += 1
        if outcome == 'ok' and gs not in st.sample_keys and len(st.samples) < st.job.get('max_samples', 6):
            st.sample_keys.add(gs)
            args, weights = _model_values(items, ctx.rng.handed)
            if args is not None:
                st.samples.append({'args': args, 'weights': weights, 'goals': sorted(gs), 'sub': sub,
                                   'shape': st.shape})
    return True


def _gen_source(sub, fname):
    params = sub['params']
    sig = ', '.join(f'{p[0]}: int' for p in params)
    pres = []
    for name, lo, hi in params:
        if lo is not None and hi is not None:
            pres.append(f'{lo} <= {name} <= {hi}')
        elif lo is not None:
            pres.append(f'{name} >= {lo}')
        elif hi is not None:
            pres.append(f'{name} <= {hi}')
    pres += sub.get('pre', [])
    doc = '\n'.join(f'    pre: {p}' for p in pres)
    items = ', '.join(f"('{p[0]}', {p[0]})" for p in params)
    return (f'def {fname}({sig}) -> bool:\n    """\n{doc}\n    post: _\n    """\n'
            f'    return _drive(({items}{"," if params else ""}))\n\n\n')


def main():
    global STATE
    job = json.load(open(sys.argv[1]))
    out_path = sys.argv[2]
    t0 = time.time()
    from engine import stubs
    stubs.install(symbolic=True)
    STATE = st = _State(job)
    import z3
    orig_check = z3.Solver.check

    def counted_check(self, *a):
        t = time.perf_counter()
        try:
            return orig_check(self, *a)
        finally:
            st.z3_queries += 1
            st.z3_time += time.perf_counter() - t
    z3.Solver.check = counted_check

    subs = job.get('subs') or [{'name': job['name'], 'shape': job.get('shape', {}), 'params': job['params'],
                                'pre': job.get('pre', [])}]
    workdir = os.path.dirname(os.path.abspath(sys.argv[1]))
    modname = 'h_' + ''.join(c if c.isalnum() else '_' for c in job['name'])
    src = 'from engine.worker import drive as _drive\n\n\n'
    for i, sub in enumerate(subs):
        src += _gen_source(sub, f'h{i}')
    with open(os.path.join(workdir, modname + '.py'), 'w') as f:
        f.write(src)
    sys.path.insert(0, workdir)
    mod = importlib.import_module(modname)

    from crosshair.core_and_libs import analyze_function, run_checkables
    from crosshair.options import AnalysisOptionSet, AnalysisKind
    stats = collections.Counter()
    total_budget = float(job.get('timeout', 120))
    done = threading.Event()

    def watchdog():
        # z3 does not always honour its query timeout; never lose the statistics of a job
        if not done.wait(total_budget + 45):
            if st.sub is not None:
                st.subs_done.append({'name': st.sub['name'], 'verdict': 'inconclusive', 'states': ['WATCHDOG']})
            _finish(st, stats, subs, out_path, t0)
            os._exit(0)
    threading.Thread(target=watchdog, daemon=True).start()

    for i, sub in enumerate(subs):
        remaining = total_budget - time.process_time()
        if remaining <= 1:
            st.subs_done.append({'name': sub['name'], 'verdict': 'inconclusive', 'states': ['NOT_STARTED']})
            continue
        st.sub = sub
        st.shape = sub.get('shape', {})
        st.weights_mode = sub.get('weights', job.get('weights', 'distinct'))
        before = (st.truncated, st.aborted, st.paths)
        cpu0 = time.process_time()
        opts = AnalysisOptionSet(analysis_kind=[AnalysisKind.PEP316],
                                 per_condition_timeout=min(float(sub.get('timeout', total_budget)), remaining),
                                 per_path_timeout=float(job.get('path_timeout', 30)),
                                 report_all=True, stats=stats,
                                 max_uninteresting_iterations=10 ** 9)
        try:
            messages = run_checkables(analyze_function(getattr(mod, f'h{i}'), opts))
            msgs = [{'state': m.state.name, 'message': m.message[:600]} for m in messages]
        except BaseException as e:  # noqa
            msgs = [{'state': 'WORKER_CRASH', 'message': ''.join(traceback.format_exception_only(type(e), e))[:800]
                     + ' | '.join(traceback.format_exc().splitlines()[-8:])}]
        states = {m['state'] for m in msgs}
        if st.failure is not None:
            v = 'refuted'
        elif states & {'WORKER_CRASH', 'EXEC_ERR', 'POST_ERR', 'SYNTAX_ERR', 'IMPORT_ERR'}:
            v = 'error'
        elif 'PRE_UNSAT' in states:
            # an empty class of a case split is decided (nothing to explore), otherwise a harness error
            raised = any('raised' in m['message'] for m in msgs)
            v = 'confirmed' if (sub.get('may_be_empty') and not raised) else 'pre_unsat'
        elif states == {'CONFIRMED'} and (st.truncated, st.aborted) == before[:2]:
            v = 'confirmed'
        else:
            v = 'inconclusive'
        d = {'name': sub['name'], 'verdict': v, 'states': sorted(states), 'paths': st.paths - before[2],
             'cpu_s': round(time.process_time() - cpu0, 1)}
        if v in ('error', 'pre_unsat'):
            d['messages'] = msgs
        st.subs_done.append(d)
        if v in ('refuted', 'error'):
            break
    done.set()
    _finish(st, stats, subs, out_path, t0)


def _finish(st, stats, subs, out_path, t0):
    job = st.job
    vs = [d['verdict'] for d in st.subs_done]
    if st.failure is not None:
        verdict = 'refuted'
    elif 'error' in vs:
        verdict = 'error'
    elif 'pre_unsat' in vs:
        verdict = 'pre_unsat'
    elif len(vs) == len(subs) and all(v == 'confirmed' for v in vs):
        verdict = 'confirmed'
    else:
        verdict = 'inconclusive'
    msgs = []
    for d in st.subs_done:
        if d['verdict'] in ('error', 'pre_unsat'):
            msgs += [dict(m, sub=d['name']) for m in d.get('messages', [])][:3]
    result = {
        'job': job['name'], 'harness': job['harness'],
        'verdict': verdict, 'messages': msgs[:6],
        'analyses': len(subs), 'analyses_confirmed': vs.count('confirmed'),
        'analyses_inconclusive': [d['name'] for d in st.subs_done if d['verdict'] == 'inconclusive'][:20]
        + [s['name'] for s in subs[len(st.subs_done):]][:20] if verdict != 'refuted' else [],
        'heaviest': sorted(({'name': d['name'], 'paths': d.get('paths'), 'cpu_s': d.get('cpu_s')} for d in st.subs_done
                            if d.get('cpu_s') is not None), key=lambda d: -d['cpu_s'])[:3],
        'analysis_stats': [{'name': d['name'], 'verdict': d.get('verdict'), 'paths': d.get('paths'), 'cpu_s': d.get('cpu_s')}
                           for d in st.subs_done],
        'paths': st.paths, 'ok_paths': st.ok_paths, 'truncated': st.truncated, 'aborted': st.aborted,
        'abort_samples': st.abort_samples,
        'goal_counts': dict(st.goal_counts), 'nontrivial_paths': st.nontrivial,
        'distinct_goal_sets': len(st.goal_sets),
        'samples': st.samples, 'failure': st.failure, 'counters': dict(st.counters),
        'z3_queries': st.z3_queries, 'z3_time': round(st.z3_time, 3),
        'cpu_s': round(time.process_time(), 2), 'wall_s': round(time.time() - t0, 2),
        'crosshair_num_paths': stats.get('num_paths', 0),
    }
    with open(out_path, 'w') as f:
        json.dump(result, f)


if __name__ == '__main__':
    from engine import worker as _w
    _w.main()
