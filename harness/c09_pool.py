"""C09 Resource pools: usage = outstanding reservations; requests atomic.

Real ResourceManager / ReservedResources on a real Environment.  A run is a
sequence of N pool operations.  The *shape* of the sequence (operation kinds,
which names, which reservation) is concrete per analysis and enumerated
completely; all amounts are symbolic ints.  After every operation the
invariants of the property are asserted from the public accessors.
"""
from simprocesd.model import Environment, ResourceManager

PROPERTY = 'C09'
NAMES = ['a', 'b', 'u']            # 'u' is never given capacity up front
PAIRS = [('a', 'b'), ('b', 'a'), ('a', 'u'), ('u', 'a'), ('a',), ('b',)]
AMOUNT = 10 ** 9   # |amount| bound: far below 2**53, so the repository's float 0.0 start value stays exact
MAXRES = 3

ENCODED = ['ResourceManager.add_resources', 'ResourceManager.reserve_resources',
           'ResourceManager._can_fulfill_request', 'ResourceManager._release_resources',
           'ResourceManager.get_resource_usage', 'ResourceManager.get_resource_capacity',
           'ResourceManager._record_resource_amount_update', 'ResourceManager._schedule_check_pending_requesters',
           'ResourceManager._check_pending_requests',
           'ReservedResources.release', 'ReservedResources.merge', 'ReservedResources.reserved_resources',
           'Environment.schedule_event', 'Environment.step', 'Environment.add_datapoint']
ASSUMPTIONS = [
    'S8 the float literal 0.0 with which the repository starts a usage counter is normalised to the int 0 in the '
    'symbolic run (equal value; integer amounts |x| <= 10**9 keep every float exact); replays use the unmodified class',
    'integer amounts only (float amounts are outside: 0.1+0.2 is not exact and usage == sum is then not promised)',
    'a zero entry for a resource the reservation does not hold may be rejected or accepted by release()',
]


def bounds_text(tier):
    n, m = (2, 1) if tier == 'quick' else (2, 2)
    return (f'(seq) all sequences of {n} operations from a pool a:ca b:cb (ca, cb symbolic >= 1, third name never added) over '
            f'the alphabet add(name; amount) / reserve(one or two entries, both key orders, incl. the unknown name) / '
            f'release-all(r) / release-partial(r, two entries in both orders) / release(r, {{}}) / merge(ri, rj); '
            f'(step) {m} such operation(s) (1 from the two-reservation prefixes) applied to every state reached by a prefix of 1-2 granted reservations with '
            f'symbolic holdings, optionally followed by a symbolic capacity reduction (also below usage); at most '
            f'{MAXRES} live reservations; all amounts symbolic ints in [-1e9, 1e9]')


def _alphabet(nres):
    ops = [['A', n] for n in NAMES] + [['R', i] for i in range(len(PAIRS))]
    if nres >= 1:
        ops.append(['Q'])       # reserve again with the very same request dictionary object as the previous reserve
    for r in range(min(nres, 2)):
        ops.append(['F', r])
        ops.append(['E', r])
        for pi in range(4):
            ops.append(['P', r, pi])
    if nres >= 2:
        ops += [['M', 0, 1], ['M', 1, 0]]
    return ops


def _sequences(n, prefix=(), nres=0):
    if n == 0:
        yield list(prefix)
        return
    for op in _alphabet(nres):
        yield from _sequences(n - 1, prefix + (op,), min(MAXRES, nres + (1 if op[0] in 'RQ' else 0)))


# prefixes that generate "any reachable state" with 1-2 live reservations: (ops, extra preconditions)
_PREFIXES = [
    ([['R', 0]], ['0 <= x0 <= ca', '0 <= y0 <= cb', 'x0 + y0 >= 1']),
    ([['R', 0], ['R', 1]], ['0 <= x0 <= ca', '0 <= y0 <= cb', 'x0 + y0 >= 1',
                           '0 <= x1 <= cb - y0', '0 <= y1 <= ca - x0', 'x1 + y1 >= 1']),
    ([['R', 0], ['A', 'a']], ['0 <= x0 <= ca', '0 <= y0 <= cb', 'x0 >= 1', '-ca <= x1 <= -1']),
    ([['R', 0], ['R', 4], ['A', 'a']], ['0 <= x0 <= ca', '0 <= y0 <= cb', 'x0 + y0 >= 1',
                                        '1 <= x1 <= ca - x0', '-ca <= x2 <= -1']),
]


def _params(seq):
    params = [['ca', 1, AMOUNT], ['cb', 1, AMOUNT]]
    for i, op in enumerate(seq):
        if op[0] == 'A':
            params.append([f'x{i}', -AMOUNT, AMOUNT])
        elif op[0] in 'RP':
            names = PAIRS[op[-1]]
            params.append([f'x{i}', -AMOUNT, AMOUNT])
            if len(names) > 1:
                params.append([f'y{i}', -AMOUNT, AMOUNT])
    return params


def _name(seq):
    return '.'.join(''.join(map(str, op)) for op in seq)


def jobs(tier):
    n, m = (2, 1) if tier == 'quick' else (2, 2)     # 3-op sequences from the initial pool are subsumed by 2 ops from the prefix states
    subs = []
    for seq in _sequences(n):
        subs.append({'name': 'seq:' + _name(seq), 'shape': {'ops': seq}, 'params': _params(seq)})
    # hand-picked 3-operation sequences: the same request dictionary used twice, then released
    for seq in ([['R', 0], ['Q'], ['F', 0]], [['R', 4], ['Q'], ['F', 0]], [['R', 0], ['Q'], ['P', 0, 0]], [['R', 0], ['Q'], ['F', 1]],
                [['R', 4], ['Q'], ['E', 0]]):
        subs.append({'name': 'pick:' + _name(seq), 'shape': {'ops': seq}, 'params': _params(seq)})
    for pi, (pre_ops, pre) in enumerate(_PREFIXES):
        nres = sum(1 for o in pre_ops if o[0] == 'R')
        # two-operation tails only from the single-reservation prefixes (CPU budget of the thorough tier)
        for tail in _sequences(m if (m == 1 or pi in (0, 2)) else 1, nres=nres):
            seq = pre_ops + tail
            subs.append({'name': 'step:' + _name(pre_ops) + '|' + _name(tail), 'shape': {'ops': seq},
                         'params': _params(seq), 'pre': pre})
    njobs = 64
    out = []
    for j in range(njobs):
        chunk = subs[j::njobs]
        if chunk:
            out.append({'name': f'pool-{j:03d}', 'subs': chunk, 'weights': 'fifo',
                        'timeout': 170 if tier == 'quick' else 300})
    return out


def required_goals(tier):
    return ['add_rejected', 'capacity_reduced', 'capacity_below_usage', 'reserve_raised', 'reserve_refused',
            'reserve_granted', 'release_again', 'release_rejected', 'release_partial_ok', 'merged', 'release_empty_dict', 'request_dict_reused']


def signature(failure):
    return failure['label']


class _IntPool(ResourceManager):
    '''S8 (see ASSUMPTIONS).'''

    def add_resources(self, resource_name, amount):
        super().add_resources(resource_name, amount)
        cur = self._resources.get(resource_name)
        if cur is not None and type(cur[0]) is float and cur[0] == 0.0:
            self._resources[resource_name] = (0, cur[1])


def _num(v):
    # the accessors answer the float literal 0.0 for a resource that was never added
    return 0 if (type(v) is float and v == 0.0) else v


def _snapshot(ctx, rm, res):
    pool = {n: (rm.get_resource_usage(n), rm.get_resource_capacity(n)) for n in NAMES}
    held = [r.reserved_resources for r in res]
    with ctx.notrace():
        pool = {n: (_num(ctx.z(u)), _num(ctx.z(c))) for n, (u, c) in pool.items()}
        held = [ctx.z(h) for h in held]
    return pool, held


def _same(ctx, before, after, label, detail):
    pb, hb = before
    pa, ha = after
    conds = []
    for n in NAMES:
        conds.append(pa[n][0] == pb[n][0])
        conds.append(pa[n][1] == pb[n][1])
    ctx.require(len(ha) == len(hb), label, detail)
    for x, y in zip(hb, ha):
        ctx.require(set(x) == set(y), label, detail + ' (holdings keys changed)')
        for n in x:
            conds.append(x[n] == y[n])
    ctx.require(ctx.And(*conds), label, detail)


def _invariants(ctx, snap, before, reducing):
    pool, held = snap
    for n in NAMES:
        use, cap = pool[n]
        total = 0
        for h in held:
            total = total + h.get(n, 0)
        ctx.require(use == total, 'usage!=sum(holdings)', f'resource {n}')
        ctx.require(use >= 0, 'usage<0', f'resource {n}')
        ctx.require(cap >= 0, 'capacity<0', f'resource {n}')
        ub, cb = before[0][n]
        over_b = ub - cb
        over_a = use - cap
        allowed = ctx.Or(over_a <= 0, over_a <= over_b)
        if reducing is not None and reducing[0] == n:
            allowed = ctx.Or(allowed, reducing[1])
        # usage may exceed capacity only through an explicit reduction
        ctx.require(allowed, 'usage>capacity without reduction', f'resource {n}')
    for h in held:
        for n, v in h.items():
            ctx.require(v > 0, 'non-positive holding kept', f'{n}')


def run(shape, args, ctx):
    env = Environment()
    rm = _IntPool() if ctx.symbolic else ResourceManager()
    rm.add_resources('a', args['ca'])
    rm.add_resources('b', args['cb'])
    rm.initialize(env)
    res = []
    last_req = None

    def drain():
        while env._events:
            env.step()

    snap = _snapshot(ctx, rm, res)
    for i, op in enumerate(shape['ops']):
        x, y = args.get(f'x{i}', 0), args.get(f'y{i}', 0)
        zx, zy = ctx.z(x), ctx.z(y)
        before = snap
        reducing = None
        ctx.count('ops')
        kind = op[0]
        if kind == 'A':                                          # add / reduce capacity
            name = op[1]
            raised = False
            try:
                rm.add_resources(name, x)
            except ValueError:
                raised = True
            after = _snapshot(ctx, rm, res)
            with ctx.notrace():
                if raised:
                    ctx.goal('add_rejected')
                    _same(ctx, before, after, 'raised but changed state', f'add_resources({name!r}, amount<0)')
                    # the documented error is for reductions below zero only
                    ctx.require(ctx.And(zx < 0, before[0][name][1] + zx < 0), 'add rejected a legal amount', name)
                else:
                    ctx.require(after[0][name][1] == before[0][name][1] + zx, 'add: capacity != old+amount', name)
                    ctx.require(after[0][name][0] == before[0][name][0], 'add changed usage', name)
                    reducing = (name, zx < 0)
                    ctx.goal_if('capacity_reduced', zx < 0)
                    ctx.goal_if('capacity_below_usage', ctx.And(zx < 0, after[0][name][1] < after[0][name][0]))
        elif kind in ('R', 'Q'):                                 # reserve (Q: with the dict object of the previous reserve)
            if kind == 'Q':
                if last_req is None:
                    continue
                req, amounts = last_req
                names = tuple(amounts)
                ctx.goal('request_dict_reused')
            else:
                names = PAIRS[op[1]]
                req = {names[0]: x}
                amounts = {names[0]: zx}
                if len(names) > 1:
                    req[names[1]] = y
                    amounts[names[1]] = zy
                last_req = (req, amounts)
            raised = False
            r = None
            try:
                r = rm.reserve_resources(req)
            except ValueError:
                raised = True
            after = _snapshot(ctx, rm, res + ([r] if r is not None else []))
            with ctx.notrace():
                fits = ctx.And(*[ctx.Or(v <= 0, before[0][n][1] - before[0][n][0] >= v) for n, v in amounts.items()])
                nonneg = ctx.And(*[v >= 0 for v in amounts.values()])
                if raised:
                    ctx.goal('reserve_raised')
                    ctx.require(ctx.Not(nonneg), 'reserve raised on a non-negative request', str(names))
                    _same(ctx, before, (after[0], after[1][:len(res)]), 'raised but changed state',
                          f'reserve_resources({list(amounts)}) with a negative entry')
                elif r is None:
                    ctx.goal('reserve_refused')
                    ctx.require(ctx.Not(ctx.And(fits, nonneg)), 'feasible request refused', str(names))
                    _same(ctx, before, after, 'refused but changed state', 'reserve_resources')
                else:
                    ctx.goal('reserve_granted')
                    ctx.require(ctx.And(fits, nonneg), 'infeasible request granted', str(names))
                    held = after[1][-1]
                    ctx.require(set(req) == set(amounts) and ctx.And(*[ctx.z(req[n]) == amounts[n] for n in amounts]),
                                'reserve_resources modified the caller\'s request dictionary', str(names))
                    for n, v in amounts.items():
                        ctx.require(after[0][n][0] == before[0][n][0] + v, 'reserve took != requested', n)
                        ctx.require(held.get(n, 0) == v, 'reservation holds != requested', n)
                    for n in NAMES:
                        if n not in amounts:
                            ctx.require(after[0][n][0] == before[0][n][0], 'reserve touched other resource', n)
            if r is not None:
                if len(res) < MAXRES:
                    res.append(r)
                else:
                    r.release()
        elif kind == 'F':                                        # release everything (also repeated)
            if op[1] < len(res):
                r = res[op[1]]
                hb = before[1][op[1]]
                if not hb:
                    ctx.goal('release_again')
                r.release()
                after = _snapshot(ctx, rm, res)
                with ctx.notrace():
                    for n in NAMES:
                        ctx.require(after[0][n][0] == before[0][n][0] - hb.get(n, 0), 'release-all gave back != held', n)
                    ctx.require(after[1][op[1]] == {}, 'release-all left holdings')
        elif kind == 'E':                                        # release of an empty dictionary: gives back nothing
            if op[1] < len(res):
                res[op[1]].release({})
                ctx.goal('release_empty_dict')
                after = _snapshot(ctx, rm, res)
                with ctx.notrace():
                    _same(ctx, before, after, 'release({}) changed something', 'empty partial release')
        elif kind == 'P':                                        # partial release, both key orders, odd entries
            if op[1] < len(res):
                r = res[op[1]]
                names = PAIRS[op[2]]
                part = {names[0]: x, names[1]: y}
                amounts = {names[0]: zx, names[1]: zy}
                hb = before[1][op[1]]
                raised = None
                try:
                    r.release(part)
                except ValueError:
                    raised = 'ValueError'
                except KeyError:
                    raised = 'KeyError'
                after = _snapshot(ctx, rm, res)
                with ctx.notrace():
                    legal = ctx.And(*[ctx.And(v >= 0, v <= hb.get(n, 0)) for n, v in amounts.items()])
                    # a zero entry for a resource this reservation does not hold: the statement does
                    # not say whether that is an error
                    ambiguous = any(n not in hb for n in amounts)
                    if raised:
                        ctx.goal('release_rejected')
                        _same(ctx, before, after, 'raised but changed state', f'release({list(amounts)}) raised {raised}')
                        if not ambiguous:
                            ctx.require(ctx.Not(legal), 'legal partial release rejected', raised)
                    else:
                        ctx.goal('release_partial_ok')
                        ctx.require(legal, 'illegal partial release accepted', str(names))
                        ha = after[1][op[1]]
                        for n in NAMES:
                            v = amounts.get(n, 0)
                            ctx.require(after[0][n][0] == before[0][n][0] - v, 'partial release gave back != released', n)
                            ctx.require(ha.get(n, 0) == hb.get(n, 0) - v, 'holding not reduced by released amount', n)
        elif kind == 'M':                                        # merge two distinct reservations
            if max(op[1], op[2]) < len(res):
                a, b = res[op[1]], res[op[2]]
                ha, hb = before[1][op[1]], before[1][op[2]]
                a.merge(b)
                ctx.goal('merged')
                after = _snapshot(ctx, rm, res)
                with ctx.notrace():
                    for n in NAMES:
                        ctx.require(after[0][n][0] == before[0][n][0], 'merge changed usage', n)
                        ctx.require(after[1][op[1]].get(n, 0) == ha.get(n, 0) + hb.get(n, 0), 'merge lost holdings', n)
                    ctx.require(after[1][op[2]] == {}, 'merge source not emptied')
        drain()
        snap = _snapshot(ctx, rm, res)
        with ctx.notrace():
            _invariants(ctx, snap, before, reducing)
