"""C09 Resource pools: usage = outstanding reservations; requests atomic.

Real ResourceManager / ReservedResources on a real Environment.  A run is a
sequence of N pool operations; operation codes, name selectors and amounts are
symbolic ints (amounts unbounded).  After every operation the invariants of the
property are asserted from the public accessors.
"""
from simprocesd.model import Environment, ResourceManager

PROPERTY = 'C09'
NAMES = ['a', 'b', 'u']            # 'u' is never given capacity up front
PAIRS = [('a', 'b'), ('b', 'a'), ('a', 'u'), ('u', 'a'), ('a',), ('b',)]
OPS = ['add', 'reserve', 'release_all', 'release_part', 'merge', 'add_b']

ENCODED = ['ResourceManager.add_resources', 'ResourceManager.reserve_resources',
           'ResourceManager._can_fulfill_request', 'ResourceManager._release_resources',
           'ResourceManager.get_resource_usage', 'ResourceManager.get_resource_capacity',
           'ResourceManager._record_resource_amount_update', 'ResourceManager._schedule_check_pending_requesters',
           'ReservedResources.release', 'ReservedResources.merge', 'ReservedResources.reserved_resources',
           'Environment.schedule_event', 'Environment.step', 'Environment.add_datapoint']


def jobs(tier):
    n = 3 if tier == 'quick' else 4
    out = []
    # case split on the first operation code(s); everything else symbolic
    import itertools
    firsts = itertools.product(range(5), repeat=1 if tier == 'quick' else 2)
    for f in firsts:
        params, pre = [], []
        for i in range(n):
            if i < len(f):
                pre.append(f'op{i} == {f[i]}')
            params += [[f'op{i}', 0, 4], [f'k{i}', 0, 5], [f'x{i}', None, None], [f'y{i}', None, None]]
        out.append({'name': f'pool-n{n}-' + ''.join(map(str, f)), 'shape': {'n': n, 'c0': 2, 'c1': 1},
                    'params': params, 'pre': pre, 'weights': 'fifo',
                    'timeout': 150 if tier == 'quick' else 900})
    return out


def signature(failure):
    """Class of a failure, for matching against known_findings.json."""
    return failure['label']


def _snapshot(rm, res):
    pool = {n: (rm.get_resource_usage(n), rm.get_resource_capacity(n)) for n in NAMES}
    held = [r.reserved_resources for r in res]
    return pool, held


def _same(ctx, before, after, label, detail):
    pb, hb = before
    pa, ha = after
    for n in NAMES:
        ctx.require(pa[n][0] == pb[n][0], label, detail + f' usage[{n}] changed')
        ctx.require(pa[n][1] == pb[n][1], label, detail + f' capacity[{n}] changed')
    ctx.require(len(ha) == len(hb), label, detail)
    for x, y in zip(hb, ha):
        ctx.require(set(x) == set(y), label, detail + ' holdings keys changed')
        for n in x:
            ctx.require(x[n] == y[n], label, detail + f' holding[{n}] changed')


def _invariants(ctx, rm, res, before, reducing_add_on):
    pool, held = _snapshot(rm, res)
    for n in NAMES:
        use, cap = pool[n]
        total = 0
        for h in held:
            total = total + h.get(n, 0)
        ctx.require(use == total, 'usage!=sum(holdings)', f'resource {n}')
        ctx.require(use >= 0, 'usage<0', f'resource {n}')
        ctx.require(cap >= 0, 'capacity<0', f'resource {n}')
        if n != reducing_add_on:
            ub, cb = before[0][n]
            over_b = ub - cb
            over_a = use - cap
            # usage may exceed capacity only through an explicit reduction
            ctx.require(over_a <= 0 or over_a <= over_b, 'usage>capacity without reduction', f'resource {n}')
    for h in held:
        for n, v in h.items():
            ctx.require(v > 0, 'non-positive holding kept', f'{n}')
    return pool, held


def run(shape, args, ctx):
    env = Environment()
    rm = ResourceManager()
    rm.add_resources('a', shape.get('c0', 2))
    rm.add_resources('b', shape.get('c1', 1))
    rm.initialize(env)
    res = []

    def drain():
        while env._events:
            env.step()

    for i in range(shape['n']):
        op, k, x, y = args[f'op{i}'], args[f'k{i}'], args[f'x{i}'], args[f'y{i}']
        before = _snapshot(rm, res)
        reducing = None
        ctx.count('ops')
        if op == 0 or op == 5:                                   # add / reduce capacity
            name = NAMES[k % 3]
            raised = False
            try:
                rm.add_resources(name, x)
            except ValueError:
                raised = True
            after = _snapshot(rm, res)
            if raised:
                ctx.goal('add_rejected')
                _same(ctx, before, after, 'raised but changed state', f'add_resources({name!r}, amount<0)')
                # the documented error is for reductions below zero only
                ctx.require(x < 0 and before[0][name][1] + x < 0, 'add rejected a legal amount', name)
            else:
                ctx.require(after[0][name][1] == before[0][name][1] + x, 'add: capacity != old+amount', name)
                ctx.require(after[0][name][0] == before[0][name][0], 'add changed usage', name)
                if x < 0:
                    reducing = name
                    ctx.goal('capacity_reduced')
                    if after[0][name][1] < after[0][name][0]:
                        ctx.goal('capacity_below_usage')
        elif op == 1:                                            # reserve
            names = PAIRS[k % len(PAIRS)]
            req = {names[0]: x}
            if len(names) > 1:
                req[names[1]] = y
            amounts = dict(req)
            raised = False
            r = None
            try:
                r = rm.reserve_resources(req)
            except ValueError:
                raised = True
            after = _snapshot(rm, res)
            fits = True
            nonneg = True
            for n, v in amounts.items():
                if v < 0:
                    nonneg = False
                elif v > 0 and before[0][n][1] - before[0][n][0] < v:
                    fits = False
            if raised:
                ctx.goal('reserve_raised')
                ctx.require(not nonneg, 'reserve raised on a non-negative request', str(names))
                _same(ctx, before, after, 'raised but changed state', f'reserve_resources({list(amounts)}) with a negative entry')
            elif r is None:
                ctx.goal('reserve_refused')
                ctx.require(not (fits and nonneg), 'feasible request refused', str(names))
                _same(ctx, before, after, 'refused but changed state', 'reserve_resources')
            else:
                ctx.goal('reserve_granted')
                ctx.require(fits and nonneg, 'infeasible request granted', str(names))
                held = r.reserved_resources
                for n, v in amounts.items():
                    ctx.require(after[0][n][0] == before[0][n][0] + v, 'reserve took != requested', n)
                    ctx.require(held.get(n, 0) == v, 'reservation holds != requested', n)
                for n in NAMES:
                    if n not in amounts:
                        ctx.require(after[0][n][0] == before[0][n][0], 'reserve touched other resource', n)
                if len(res) < 3:
                    res.append(r)
                else:
                    r.release()
        elif op == 2:                                            # release everything (also repeated)
            if res:
                r = res[k % len(res)]
                if not r.reserved_resources:
                    ctx.goal('release_again')
                hb = r.reserved_resources
                r.release()
                after = _snapshot(rm, res)
                for n in NAMES:
                    ctx.require(after[0][n][0] == before[0][n][0] - hb.get(n, 0), 'release-all gave back != held', n)
                ctx.require(r.reserved_resources == {}, 'release-all left holdings')
        elif op == 3:                                            # partial release, both key orders, odd entries
            if res:
                r = res[k % len(res)]
                names = PAIRS[(k // 3) % 4]
                part = {names[0]: x, names[1]: y}
                amounts = dict(part)
                hb = r.reserved_resources
                raised = None
                try:
                    r.release(part)
                except ValueError:
                    raised = 'ValueError'
                except KeyError:
                    raised = 'KeyError'
                after = _snapshot(rm, res)
                legal = True
                for n, v in amounts.items():
                    if v < 0 or v > hb.get(n, 0):
                        legal = False
                if raised:
                    ctx.goal('release_rejected')
                    _same(ctx, before, after, 'raised but changed state',
                          f'release({list(amounts)}) raised {raised}')
                    ctx.require(not legal, 'legal partial release rejected', raised)
                else:
                    ctx.goal('release_partial_ok')
                    ctx.require(legal, 'illegal partial release accepted', str(names))
                    ha = r.reserved_resources
                    for n in NAMES:
                        v = amounts.get(n, 0)
                        ctx.require(after[0][n][0] == before[0][n][0] - v, 'partial release gave back != released', n)
                        ctx.require(ha.get(n, 0) == hb.get(n, 0) - v, 'holding not reduced by released amount', n)
        elif op == 4:                                            # merge two distinct reservations
            if len(res) >= 2:
                i1 = k % len(res)
                i2 = (i1 + 1 + (k // 3) % (len(res) - 1)) % len(res)
                a, b = res[i1], res[i2]
                ha, hb = a.reserved_resources, b.reserved_resources
                a.merge(b)
                ctx.goal('merged')
                after = _snapshot(rm, res)
                for n in NAMES:
                    ctx.require(after[0][n][0] == before[0][n][0], 'merge changed usage', n)
                    ctx.require(a.reserved_resources.get(n, 0) == ha.get(n, 0) + hb.get(n, 0), 'merge lost holdings', n)
                ctx.require(b.reserved_resources == {}, 'merge source not emptied')
        drain()
        _invariants(ctx, rm, res, before, reducing)
