"""C10 Waiting resource requests are served exactly once, in order, only when feasible.

Real ResourceManager on a real Environment.  Operation kinds are concrete per analysis,
amounts / capacities / durations symbolic:
  W0/W1/W2  register a waiter {a: x, b: y}; callback logs / reserves inside / registers another waiter
  W3/W4     callback releases a live reservation / adds one unit of capacity (from inside the check)
  Aa/Ab     add_resources(name, amount)            (amount may be negative, not below zero capacity)
  R         reserve_resources({a: x, b: y}), kept if granted
  F0/F1     release reservation 0 / 1 if it exists
  Z         let the current instant complete (run(0));  V  advance the clock (run(d), d >= 1)
"""
import itertools

from simprocesd.model import Environment, ResourceManager

from harness.c09_pool import _IntPool, _num
from harness.util import pack

PROPERTY = 'C10'
AMOUNT = 10 ** 6
ENCODED = ['ResourceManager.reserve_resources_with_callback', 'ResourceManager._schedule_check_pending_requesters',
           'ResourceManager._check_pending_requests', 'ResourceManager._can_fulfill_request', 'ResourceManager.add_resources',
           'ResourceManager.reserve_resources', 'ResourceManager._release_resources', 'ReservedResources.release',
           'Environment.schedule_event/step/run', 'Event.__lt__']
ASSUMPTIONS = ['S8 as in C09 (float 0.0 start value normalised to int 0 in the symbolic run)',
               'requests of waiters have non-negative integer amounts; operations are issued from outside events, '
               'callbacks may reserve or register from inside the availability check']

KINDS = ['W0', 'W1', 'W2', 'Aa', 'Ab', 'R', 'F0', 'F1', 'Z', 'V']


def _params(seq):
    ps = [['ca', 1, AMOUNT], ['cb', 1, AMOUNT]]
    for i, k in enumerate(seq):
        if k[0] == 'W' or k[0] == 'R':
            ps += [[f'x{i}', 0, AMOUNT]]
            if k.endswith('ab'):
                ps += [[f'y{i}', 0, AMOUNT]]
            # suffix b: the single entry is for resource b
        elif k[0] == 'A':
            ps += [[f'x{i}', -AMOUNT, AMOUNT]]
        elif k == 'V':
            ps += [[f'd{i}', 1, AMOUNT]]
    return ps


def _ok(seq):
    if not any(k[0] == 'W' for k in seq):
        return False
    nres = 0
    for k in seq:
        if k[0] == 'R':
            nres += 1
        if k == 'F0' and nres < 1 and not any(s == 'W1' for s in seq):
            return False
        if k == 'F1' and nres < 2 and sum(1 for s in seq if s in ('W1', 'R')) < 2:
            return False
    return True


def _seqs(tier):
    n = 2 if tier == 'quick' else 3
    core = ['W0', 'W1', 'W2', 'Aa', 'R', 'F0', 'Z', 'V'] if tier == 'quick' else KINDS
    out = []
    for seq in itertools.product(core, repeat=n):
        if seq[0] not in ('W0', 'W1', 'W2', 'R') or not _ok(seq):
            continue
        out.append(list(seq) + ['V'])
        if n == 2 and 'V' not in seq and 'Z' not in seq:
            out.append([seq[0], 'V', seq[1], 'V'])      # the same two operations at different instants
    # two-entry requests (suffix ab) and longer interleavings
    picked = [['Rab', 'W0ab', 'F0', 'V'], ['W0ab', 'W0ab', 'V'], ['W1ab', 'W0ab', 'Aa', 'V']] + ([['Rab', 'W0ab', 'Aa', 'Ab', 'V']] if tier == 'thorough' else []) + [
              ['R', 'W0', 'W0', 'F0', 'V'], ['R', 'W1', 'W0', 'F0', 'V'], ['R', 'W0', 'V', 'F0', 'V']]
    if tier == 'thorough':
        picked += [['R', 'W0', 'W1', 'W0', 'F0', 'V'], ['R', 'W2', 'F0', 'V', 'Aa', 'V']]
    # a callback that frees resources from inside the check makes an earlier, already skipped waiter feasible
    # the pool a waiter needs is created only later (first add_resources for that name)
    picked += [['W0u', 'Au', 'V'], ['W0u', 'V', 'Au', 'V'], ['W0u', 'W0', 'Au', 'Au', 'V']]
    picked += [['R', 'Rb', 'W0', 'W3b', 'F1', 'V', 'V'], ['R', 'W0', 'W4b', 'V']]
    if tier == 'thorough':
        picked += [['R', 'Rb', 'W0', 'W3b', 'F1', 'V', 'W0', 'V']]
    if tier == 'thorough':
        picked += [['R', 'R', 'W0', 'W0', 'F0', 'F1', 'V'], ['R', 'W1', 'W1', 'F0', 'Z', 'F0', 'V'],
                   ['Rab', 'W0ab', 'W0ab', 'F0', 'V'], ['Rab', 'W1ab', 'W0ab', 'F0', 'V']]
    # a request registered at a later instant than a still waiting one (nothing else happens at that instant)
    for first in (['W0'], ['R', 'W0']):
        for b in ('W0', 'W1', 'W2'):
            picked.append(first + ['V', b, 'V'])
    for p in picked:
        if p not in out:
            out.append(p)
    return out


def jobs(tier):
    subs = [{'name': '.'.join(s), 'shape': {'ops': s}, 'params': _params(s)} for s in _seqs(tier)]
    return pack(subs, 48 if tier == 'quick' else 64, lambda s: 3.0 ** len(s['params']), 'c10-', weights='distinct',
                timeout=240 if tier == 'quick' else 300)


def bounds_text(tier):
    n = 2 if tier == 'quick' else 3
    return (f'pool a:ca b:cb (symbolic >= 1); every sequence of {n} operations (starting with a registration or a reservation, '
            f'containing a registration; in the quick tier also with a clock advance between the two) over register-waiter (log / reserve-inside / register-another callback), add capacity, '
            f'reserve, release, complete-instant, advance-clock, followed by a clock advance; plus hand-picked sequences of '
            f'4-8 operations with two-entry requests, two and three waiters, and callbacks that release a reservation or add '
            f'capacity from inside the check ({len(_seqs(tier))} analyses in total); all amounts and durations symbolic')


def required_goals(tier):
    return ['waiter_served', 'waiter_served_after_release', 'waiter_served_after_capacity_increase', 'waiter_skipped_infeasible',
            'two_served_in_one_check', 'reserve_inside_blocks_successor', 'registered_during_scan', 'waiter_still_waiting_at_advance',
            'released_inside_callback', 'capacity_added_inside_callback', 'pool_created_while_waiting']


def signature(f):
    return f['label']


class _Waiter:
    pass


def run(shape, args, ctx):
    env = Environment()
    rm = _IntPool() if ctx.symbolic else ResourceManager()
    rm.add_resources('a', args['ca'])
    rm.add_resources('b', args['cb'])
    rm.initialize(env)
    z = ctx.z
    waiters = []          # reference: registered and not yet called back, in registration order
    all_waiters = []
    calls = []            # (waiter, time) in call order
    held = []             # live reservations
    state = {'in_check': False, 'last_op': None}

    def pool():
        return {n: (_num(z(rm.get_resource_usage(n))), _num(z(rm.get_resource_capacity(n)))) for n in ('a', 'b', 'u')}

    def fits(req, p):
        return ctx.And(*[ctx.Or(v <= 0, p[n][1] - p[n][0] >= v) for n, v in req.items()])

    def register(kind, x, y, tag, u=None):
        w = _Waiter()
        w.kind, w.req, w.called, w.tag = kind, {'a': z(x), 'b': z(y)}, 0, tag
        w.user_dict = {'a': x, 'b': y}
        if u is not None:      # a request on a resource whose pool does not exist yet
            w.req['u'] = z(u)
            w.user_dict['u'] = u

        def callback(manager, request, w=w):
            with ctx.notrace():
                w.called += 1
                ctx.require(w.called == 1, 'waiter called back more than once', w.tag)
                ctx.require(state['in_check'], 'callback invoked outside an availability check', w.tag)
                ctx.require(manager is rm, 'callback did not receive the resource manager', w.tag)
                ctx.require(request is not w.user_dict, 'callback received the caller\'s dict, not a copy', w.tag)
                zr = z(dict(request))
                ctx.require(set(zr) == set(w.req), 'callback request has different entries', w.tag)
                ctx.require(ctx.And(*[zr[n] == w.req[n] for n in w.req]), 'callback request differs from the registered request', w.tag)
            p = pool()
            with ctx.notrace():
                ctx.require(fits(w.req, p), 'callback invoked for a request that does not fit at that moment', w.tag)
                calls.append(w)
                ctx.goal('waiter_served')
                if state['last_op'] in ('F0', 'F1'):
                    ctx.goal('waiter_served_after_release')
                if state['last_op'] in ('Aa', 'Ab', 'Au'):
                    ctx.goal('waiter_served_after_capacity_increase')
            if w.kind == 1:
                r = manager.reserve_resources(request)
                ctx.require(r is not None, 'reservation inside the callback failed although the request fits', w.tag)
                held.append(r)
            elif w.kind == 2:
                ctx.goal('registered_during_scan')
                register(0, request['a'], request['b'], w.tag + "'")
            elif w.kind == 3:
                # the callback gives something back: an earlier, skipped waiter may now fit
                live = [r for r in held if r.reserved_resources]
                if live:
                    ctx.goal('released_inside_callback')
                    live[0].release()
            elif w.kind == 4:
                ctx.goal('capacity_added_inside_callback')
                manager.add_resources('a', 1)
            w.pool_after = pool()
        rm.reserve_resources_with_callback(w.user_dict, callback)
        # the caller keeps using its dict: the manager must have copied it
        w.user_dict['a'] = w.user_dict['a'] + 1000
        w.user_dict['c'] = 5
        waiters.append(w)
        all_waiters.append(w)
        return w

    real_step = env.step

    def step():
        head = env._events[0]
        is_check = getattr(head.action, '__func__', None) is ResourceManager._check_pending_requests
        with ctx.notrace():
            ctx.count('events')
            advancing = ctx.decide(z(head.time) > z(env.now))
        if advancing:
            before_clock_advance()
        if not is_check:
            real_step()
            return
        p = pool()
        n_calls = len(calls)
        scan = list(waiters)
        state['in_check'] = True
        real_step()
        state['in_check'] = False
        with ctx.notrace():
            # reference scan: registration order, feasibility re-evaluated after every callback
            expected = []
            i = 0
            cur = p
            while i < len(scan):
                w = scan[i]
                if ctx.decide(fits(w.req, cur)):
                    expected.append(w)
                    if w.called and hasattr(w, 'pool_after'):
                        if ctx.possible(ctx.Or(*[w.pool_after[n][0] != cur[n][0] for n in cur])) and i + 1 < len(scan):
                            ctx.goal_if('reserve_inside_blocks_successor', ctx.Not(fits(scan[i + 1].req, w.pool_after)))
                        cur = w.pool_after
                    for nw in waiters:          # waiters registered by this callback join the scan
                        if nw not in scan:
                            scan.append(nw)
                else:
                    ctx.goal('waiter_skipped_infeasible')
                i += 1
            got = calls[n_calls:]
            ctx.require(len(got) == len(expected) and all(a is b for a, b in zip(got, expected)),
                        'availability check did not call back exactly the feasible waiters in registration order',
                        f'expected {[w.tag for w in expected]} got {[w.tag for w in got]}')
            if len(got) >= 2:
                ctx.goal('two_served_in_one_check')
            for w in got:
                waiters.remove(w)
    env.step = step

    def before_clock_advance():
        p = pool()
        with ctx.notrace():
            for w in waiters:
                ctx.require(ctx.Not(fits(w.req, p)), 'a feasible request is still waiting while time advances', w.tag)
                ctx.goal('waiter_still_waiting_at_advance')

    for i, k in enumerate(shape['ops']):
        ctx.count('ops')
        if k[0] in 'AF':
            state['last_op'] = k
        if k[0] == 'W':
            if k.endswith('u'):
                register(int(k[1]), 0, 0, f'w{i}', u=args[f'x{i}'])
            elif k.endswith('b') and not k.endswith('ab'):
                register(int(k[1]), 0, args[f'x{i}'], f'w{i}')
            else:
                register(int(k[1]), args[f'x{i}'], args.get(f'y{i}', 0), f'w{i}')
        elif k[0] == 'A':
            name = {'Aa': 'a', 'Ab': 'b', 'Au': 'u'}[k]
            if k == 'Au':
                ctx.goal('pool_created_while_waiting')
            try:
                rm.add_resources(name, args[f'x{i}'])
            except ValueError:
                pass
        elif k[0] == 'R':
            if k == 'Rb':
                r = rm.reserve_resources({'a': 0, 'b': args[f'x{i}']})
            else:
                r = rm.reserve_resources({'a': args[f'x{i}'], 'b': args.get(f'y{i}', 0)})
            if r is not None:
                held.append(r)
        elif k in ('F0', 'F1'):
            j = int(k[1])
            if j < len(held):
                held[j].release()
        elif k == 'Z':
            env.run(0)
        elif k == 'V':
            env.run(args[f'd{i}'])
    before_clock_advance()
    with ctx.notrace():
        for w in all_waiters:
            ctx.require(w.called <= 1, 'waiter called back more than once', w.tag)
