"""C12 Maintainer: capacity, one order per target, request order, exact durations.

Real Maintainer on a real System/Environment.  R requests are issued by separate events at
symbolic instants (delay 0 allowed: bursts) to harness-defined Maintainable targets whose
duration / needed capacity / cost are symbolic per (target, tag).  The (target, tag) of each
request is concrete per analysis; everything numeric is symbolic.  An online acceptor fed by
the observations (create_work_order return values, records, hook calls) checks them.
"""
import itertools

from simprocesd.model import System, EventType
from simprocesd.model.factory_floor import Maintainer, Maintainable

from harness.util import pack, split_by_order

PROPERTY = 'C12'
T = 10 ** 6
ENCODED = ['Maintainer.create_work_order', 'Maintainer._is_work_order_requested', 'Maintainer.try_working_requests',
           'Maintainer._start_work_order', 'Maintainer._finish_work_order', 'Maintainer._record_work_order_datapoint',
           'Maintainer.available_capacity', 'Maintainable hooks', 'Asset.add_cost', 'Environment.schedule_event/step/run']
ASSUMPTIONS = ['targets are harness-defined Maintainable objects with constant symbolic duration / needed capacity / cost per (target, tag)',
               'the relative order of two START_WORK events of the same instant is not asserted (same priority and asset id: decided by the random weight by design)',
               'integer capacities, durations, costs and instants']


class Target(Maintainable):
    def __init__(self, name, table, log):
        self.name = name
        self.table = table        # tag -> (duration, need, cost)
        self.log = log
        self.on_start = None
        self.on_end = None

    def get_work_order_duration(self, tag):
        self.log.append(('duration', self.name, tag))
        return self.table[tag][0]

    def get_work_order_capacity(self, tag):
        return self.table[tag][1]

    def get_work_order_cost(self, tag):
        return self.table[tag][2]

    def start_work(self, tag):
        self.log.append(('start', self.name, tag))
        if self.on_start:
            f, self.on_start = self.on_start, None
            f()

    def end_work(self, tag):
        self.log.append(('end', self.name, tag))
        if self.on_end:
            f, self.on_end = self.on_end, None
            f()


PAIRS = [('T0', 'a'), ('T0', 'b'), ('T1', 'a'), ('T1', 'b')]


def _subs(tier):
    r = 3
    quick_set = {(0, 0, 1), (0, 1, 0), (0, 2, 0), (0, 2, 2), (0, 0, 2)}   # assignments with three distinct (target, tag) pairs: thorough only
    out = []
    for assign in itertools.product(range(4), repeat=r):
        # symmetry: first request is (T0, a); second is one of (T0,a) (T0,b) (T1,a)
        if assign[0] != 0 or assign[1] == 3:
            continue
        if tier == 'quick' and assign not in quick_set:
            continue
        used = sorted(set(assign))
        params = [['cap', 0, T]]
        for p in used:
            params += [[f'dur{p}', 0, T], [f'need{p}', 0, T], [f'cost{p}', 0 if p == 0 else 1, T]]
        for i in range(1, r):        # the first request is issued at time 0 (nothing can happen before it)
            params.append([f'd{i}', 0, T])
        variants = [False]
        if assign[:2] == (0, 2) and (tier != 'quick' or assign == (0, 2, 0)):
            variants.append(True)
        if assign in ((0, 2, 0), (0, 1, 0)):
            variants.append('end')          # the last request repeats the first order from inside that order's end_work hook
        for nested in variants:
            sub = {'name': 'req-' + ''.join(map(str, assign)) + ('-nested' if nested is True else '-from-end-hook' if nested else ''),
                   'shape': {'assign': list(assign), 'nested': nested}, 'params': list(params)}
            # case split: burst or not for the 2nd/3rd request, first order fits or not
            out += [s for s in split_by_order(sub, [('d1', '0'), ('d2', '0'), (f'need{assign[0]}', 'cap')])
                    if not s['name'].split('#')[1][0] == 'l' and not s['name'].split('#')[1][1] == 'l']
    # targeted class: two orders arrive while the first order, which fills the maintainer completely, is in progress; both
    # (different targets / tags) become startable in the same scan when it finishes
    params = [['cap', 0, T]]
    for p in (0, 2, 1):
        params += [[f'dur{p}', 0, T], [f'need{p}', 0, T], [f'cost{p}', 1, T]]
    params += [['d1', 0, T], ['d2', 0, T]]
    out.append({'name': 'req-021-two-queued-behind-a-full-maintainer', 'shape': {'assign': [0, 2, 1], 'nested': False}, 'params': params,
                'pre': ['need0 == cap', 'need0 >= 1', 'd1 + d2 < dur0', 'need2 + need1 <= cap']})
    return out


def jobs(tier):
    return pack(_subs(tier), 48 if tier == 'quick' else 64, lambda s: 1.0, 'c12-', weights='distinct',
                timeout=240 if tier == 'quick' else 300)


def bounds_text(tier):
    r = 3
    return (f'{r} requests over targets T0, T1 and tags a, b (' + ('five assignments' if tier == 'quick' else 'every assignment up to symmetry') + f'), issued at symbolic instants '
            f't0 <= t1 <= ... (equal instants allowed); maintainer capacity, per-(target, tag) duration, needed capacity '
            f'(0 and more than the total included) and cost symbolic ints in [0, 10**6]; variants issue the last request from '
            f'inside a start_work / end_work hook; one targeted class lets two orders arrive while a capacity-filling order is '
            f'in progress (both startable in the scan at its end); every tie-break order')


def required_goals(tier):
    return ['duplicate_rejected', 'order_waited_for_capacity', 'order_waited_for_target', 'overtaking', 'two_active',
            'two_selected_in_one_scan', 'burst_same_instant', 'zero_duration', 'never_fits', 'finished', 'request_from_hook', 'request_from_end_hook']


def signature(f):
    return f['label']


class _Order:
    pass


def run(shape, args, ctx):
    z = ctx.z
    system = System()
    env = system.env
    cap = args['cap']
    mt = Maintainer('mt', capacity=cap)
    log = []
    tables = {'T0': {}, 'T1': {}}
    for p in sorted(set(shape['assign'])):
        tn, tag = PAIRS[p]
        tables[tn][tag] = (args[f'dur{p}'], args[f'need{p}'], args[f'cost{p}'])
    targets = {n: Target(n, tables[n], log) for n in ('T0', 'T1')}
    zcap = z(cap)
    queue, active, orders = [], [], []
    st = {'util': 0, 'value0': None, 'charged': 0, 'log_seen': 0, 'rec_seen': {'start_work_order': 0, 'finish_work_order': 0,
                                                                             'enter_queue': 0}}

    def now():
        return z(env.now)

    def scan():
        """Reference: scan the queue in request order, select what fits and whose target is free."""
        i = 0
        skipped = False
        picked = 0
        while i < len(queue):
            o = queue[i]
            busy = any(a.target == o.target for a in active)
            fits = ctx.decide(st['util'] + o.need <= zcap)
            if fits and not busy:
                queue.pop(i)
                active.append(o)
                st['util'] = st['util'] + o.need
                o.selected_at = now()
                o.state = 'selected'
                picked += 1
                if picked >= 2:
                    ctx.goal('two_selected_in_one_scan')
                if skipped:
                    ctx.goal('overtaking')
            else:
                if not fits:
                    ctx.goal('order_waited_for_capacity')
                    ctx.goal_if('never_fits', o.need > zcap)
                if busy:
                    ctx.goal('order_waited_for_target')
                skipped = True
                i += 1
        if len(active) >= 2:
            ctx.goal('two_active')

    def request(i):
        tn, tag = PAIRS[shape['assign'][i]]
        t = targets[tn]
        ret = mt.create_work_order(t, tag, info=f'req{i}')
        with ctx.notrace():
            dup = any(o.target == tn and o.tag == tag for o in queue + active)
            ctx.require(ret == (not dup), 'create_work_order return value != (no identical order queued or in progress)', f'req{i}')
            if dup:
                ctx.goal('duplicate_rejected')
                return
            o = _Order()
            o.i, o.target, o.tag, o.info = i, tn, tag, f'req{i}'
            o.dur, o.need, o.cost = (z(v) for v in tables[tn][tag])
            o.state, o.selected_at, o.started_at = 'queued', None, None
            o.requested_at = now()
            orders.append(o)
            queue.append(o)
            if any(p.requested_at is not None and ctx.possible(p.requested_at == o.requested_at) for p in orders[:-1]):
                ctx.goal('burst_same_instant')
            scan()

    def observe():
        """Consume new records / hook calls produced by the event that just ran."""
        with ctx.notrace():
            data = env.simulation_data
            starts = data.get('start_work_order', {}).get('mt', [])
            fins = data.get('finish_work_order', {}).get('mt', [])
            for rec in starts[st['rec_seen']['start_work_order']:]:
                o = next((x for x in orders if x.info == rec[3]), None)
                ctx.require(o is not None and o.state == 'selected', 'an order started that was not selected (order, capacity or target rule broken)', str(rec[3]))
                ctx.require(z(rec[0]) == o.selected_at, 'order did not start at the instant it was selected', o.info)
                ctx.require(rec[1] == o.target and rec[2] == o.tag, 'start record names another order', o.info)
                o.state, o.started_at = 'started', z(rec[0])
                st['charged'] = st['charged'] + o.cost
                ctx.goal_if('zero_duration', o.dur == 0)
            st['rec_seen']['start_work_order'] = len(starts)
            new_fins = fins[st['rec_seen']['finish_work_order']:]
            for rec in new_fins:
                o = next((x for x in orders if x.info == rec[3]), None)
                ctx.require(o is not None and o.state == 'started', 'an order finished that was not in progress', str(rec[3]))
                ctx.require(z(rec[0]) == o.started_at + o.dur, 'order did not last exactly the duration reported at start', o.info)
                o.state = 'finished'
                active.remove(o)
                st['util'] = st['util'] - o.need
                ctx.goal('finished')
            st['rec_seen']['finish_work_order'] = len(fins)
            if new_fins:
                scan()
            # hooks: per started order one duration query + one start_work, per finished one end_work, in this order
            for o in orders:
                n_start = sum(1 for e in log if e == ('start', o.target, o.tag))
                n_end = sum(1 for e in log if e == ('end', o.target, o.tag))
                same = [x for x in orders if x.target == o.target and x.tag == o.tag]
                ctx.require(n_start == sum(1 for x in same if x.state in ('started', 'finished')), 'start_work hook not called exactly once per started order', o.info)
                ctx.require(n_end == sum(1 for x in same if x.state == 'finished'), 'end_work hook not called exactly once per finished order', o.info)
        avail = mt.available_capacity
        value = mt.value
        with ctx.notrace():
            ctx.require(st['util'] <= zcap, 'capacity in use exceeds the maintainer capacity')
            ctx.require(z(avail) == zcap - st['util'], 'available_capacity != capacity - sum of needed capacity of selected orders')
            ctx.require(z(value) == 0 - st['charged'], 'maintainer value != -(sum of costs of started orders)')
            for tn in targets:
                ctx.require(sum(1 for a in active if a.target == tn) <= 1, 'two orders in progress on one target', tn)

    def before_clock_advance():
        with ctx.notrace():
            for o in orders:
                ctx.require(o.state != 'selected', 'a selected order has not started although time advances', o.info)
            for o in queue:
                busy = any(a.target == o.target for a in active)
                if not busy:
                    ctx.require(st['util'] + o.need > zcap, 'a queued order that fits and whose target is free is left waiting', o.info)

    real_step = env.step

    def step():
        with ctx.notrace():
            ctx.count('events')
            head = env._events[0]
            adv = ctx.decide(z(head.time) > z(env.now))
        if adv:
            before_clock_advance()
        real_step()
        observe()
    env.step = step

    t = 0
    n = len(shape['assign'])
    for i in range(n):
        t = t + args.get(f'd{i}', 0)
        if shape.get('nested') is True and i == n - 1:
            # the last request is issued from inside the start_work hook of the first order
            targets['T0'].on_start = lambda i=i: (ctx.goal('request_from_hook'), request(i))
            continue
        if shape.get('nested') == 'end' and i == n - 1:
            # ... or from inside the end_work hook of the first order (which is still in progress then)
            targets['T0'].on_end = lambda i=i: (ctx.goal('request_from_end_hook'), request(i))
            continue
        act = (lambda i=i: request(i))
        env.schedule_event(t, -7, act, EventType.OTHER_LOW_PRIORITY if i % 2 == 0 else EventType.OTHER_HIGH_PRIORITY, f'request {i}')
    system.simulate(10 ** 8, print_summary=False)
    before_clock_advance()
    with ctx.notrace():
        for o in orders:
            if o.state != 'finished':
                # still queued at the end: only legitimate if it can never be selected (does not fit an idle maintainer)
                ctx.require(o.state == 'queued' and not active, 'order neither finished nor permanently infeasible at the end', o.info)
