"""C14 Reproducibility: same weights -> same results up to asset-id numbering; split runs;
simulate_multiple_times gathers by index.

(a) 'twice': the same model is run twice in one path; the second run replays the same
    symbolic tie-break weights and starts from Asset._id_counter = off (symbolic >= 0).
(b) 'split': run(a); run(b) against run(a+b) with a symbolic split point; weights are attached
    to events by creation order, TERMINATE events draw from a separate stream.
(c) 'multi': simulate_multiple_times(sim, n, max_processes) with a synchronous executor (S6).
"""
import copy

from simprocesd.model import System, EventType
from simprocesd.model.factory_floor import Asset

from harness import lines as L
from harness.line_jobs import resources2
from harness.util import pack, split_by_order

PROPERTY = 'C14'
ENCODED = ['Event.__init__', 'Asset.__init__', 'System.simulate', 'System.simulate_multiple_times', 'System._simulation_helper',
           'Environment.run/step', 'the device classes of the models run']
ASSUMPTIONS = ['S6 concurrent.futures.ProcessPoolExecutor in system.py is replaced by a synchronous executor honouring the '
               'submit()/Future.result() contract: real worker processes, pickling and fork/spawn differences are outside',
               'devices and part generators carry explicit names, so that names do not embed asset ids',
               'A4: Asset._id_counter and System._instance are process-global and set by the harness',
               'S10: in the run-twice analyses devices are instances of subclasses that only add __hash__, ascending in the first run and '
               'descending in the second (object hashes stand for memory addresses, which differ between processes)']
T = L.T

MERGE = {'devices': [{'k': 'source', 'name': 's1', 'cycle': 'c0', 'parts': 2}, {'k': 'source', 'name': 's2', 'cycle': 'c1', 'parts': 1},
                     {'k': 'buffer', 'name': 'b', 'up': ['s1', 's2'], 'delay': 0, 'cap': 1},
                     {'k': 'sink', 'name': 'snk', 'up': ['b'], 'cycle': 'cs'}]}
MERGE3 = {'devices': [{'k': 'source', 'name': 's1', 'cycle': 0, 'parts': 1}, {'k': 'source', 'name': 's2', 'cycle': 0, 'parts': 1},
                      {'k': 'source', 'name': 's3', 'cycle': 0, 'parts': 1},
                      {'k': 'proc', 'name': 'p', 'up': ['s1', 's2', 's3'], 'cycle': 'c1'},
                      {'k': 'sink', 'name': 'snk', 'up': ['p'], 'cycle': 0}]}
FAN = {'devices': [{'k': 'source', 'name': 'src', 'cycle': 'c0', 'parts': 2},
                   {'k': 'proc', 'name': 'p1', 'up': ['src'], 'cycle': 'c1'}, {'k': 'proc', 'name': 'p2', 'up': ['src'], 'cycle': 'c1'},
                   {'k': 'sink', 'name': 'snk', 'up': ['p1', 'p2'], 'cycle': 'cs'}]}


def _mk(name, mode, spec, extra_params=(), zero=(), **shape):
    sub = L.mk_sub(name, spec, [], zero=list(zero))
    sub['shape'].update(mode=mode, **shape)
    sub['params'] += [list(p) for p in extra_params]
    return sub


def _subs(tier):
    q = tier == 'quick'
    S = []
    S.append(_mk('twice-merge', 'twice', MERGE, [('off', 0, 10 ** 6)], zero=['cs']))
    S.append(_mk('twice-fanout', 'twice', FAN, [('off', 0, 10 ** 6)], zero=['cs']))
    S.append(_mk('twice-merge3-bottleneck', 'twice', MERGE3, [('off', 0, 10 ** 6)]))
    S.append(_mk('split-merge', 'split', MERGE, [('a', 0, 3 * T)], zero=['cs']))
    S.append(_mk('split-fanout', 'split', FAN, [('a', 0, 3 * T)], zero=['cs', 'c0']))
    maint = L.with_ops(L.serial('P', 1), [{'k': 'shutdown', 'dev': 'p1', 't': 't0'}, {'k': 'restore', 'dev': 'p1', 't': 't1'}])
    sub = _mk('split-inside-maintenance', 'split', maint, [('a', 0, 3 * T)], zero=['cs', 'c0'])
    sub['pre'] = ['t0 < c1', 'c1 < a', 'a < t1']      # the paused timer's original due time lies before the split point
    S.append(sub)
    S.append(_mk('twice-resources', 'twice', resources2(2), [('off', 0, 10 ** 6)], zero=['cs', 'c0']))
    if not q:
        S.append(_mk('split-resources', 'split', resources2(2), [('a', 0, 3 * T)], zero=['cs', 'c0']))
        S.append(_mk('twice-merge-n3', 'twice', dict(MERGE, devices=[dict(MERGE['devices'][0], parts=3)] + MERGE['devices'][1:]),
                     [('off', 0, 10 ** 6)], zero=[]))
    # default names (Source_<id> ...): the second run starts at id 9998, so that two devices get ids 9999 and 10000
    dn = {'devices': [dict(d, default_name=True) for d in MERGE['devices']]}
    sub = _mk('twice-merge-default-names-id-9999-10000', 'twice', dn, [], zero=['cs'])
    sub['shape']['off'] = 9998
    S.append(sub)
    for n in ([2, 3] if q else [1, 2, 3]):
        for mp in [0, 1, 2, None]:
            sub = {'name': f'multi-n{n}-mp{mp}', 'shape': {'mode': 'multi', 'n': n, 'mp': mp}, 'params': [['c1', 1, T]],
                   'weights': 'fifo'}
            S.append(sub)
    return S


def jobs(tier):
    subs = []
    for s in _subs(tier):
        if s['shape'].get('mode') == 'split':
            names = [p[0] for p in s['params'] if p[0] != 'a']
            subs += split_by_order(s, [('a', n) for n in names[:2]] + ([(names[0], names[1])] if len(names) >= 2 else []))
        else:
            subs.append(s)
    return pack(subs, 32, lambda s: 1.0, 'c14-', weights='distinct', timeout=240 if tier == 'quick' else 300)


def bounds_text(tier):
    return ('(a) merge topology (two sources into a capacity-1 buffer) and fan-out (two equal processors), 2-3 parts, symbolic cycle '
            'times, run twice with the same symbolic weights and a symbolic asset-id offset; (b) the same models with a symbolic split '
            'point a of the horizon; (c) simulate_multiple_times with n in {' + ('2,3' if tier == 'quick' else '1,2,3') + '} and '
            'max_processes in {0,1,2,None} under the synchronous executor stub; every replayed sample path of (a) also runs the model twice with the '
            'real random module seeded identically')


def required_goals(tier):
    return ['tie_break_decided_outcome', 'second_run_matched', 'split_inside_activity', 'split_matched', 'executor_used', 'in_process_used']


def signature(f):
    return f['label']


class _Replay:
    """Hands out the recorded weights again (same objects), then falls back."""

    def __init__(self, weights, base):
        self.w, self.i, self.base = list(weights), 0, base

    @property
    def handed(self):
        return self.base.handed

    def random(self):
        if self.i < len(self.w):
            v = self.w[self.i]
            self.i += 1
            return v
        return self.base.random()


def _snapshot(world):
    data = {}
    keyof = {world.dev[k].name: k for k in world.order}
    for label, table in world.env.simulation_data.items():
        for name, recs in table.items():
            data[(label, keyof.get(name, name))] = [tuple(r) for r in recs]
    state = {}
    for n in world.order:
        d, k = world.dev[n], world.kind[n]
        if k == 'sink':
            state[n] = (d.received_parts_count, d.value)
        elif k == 'source':
            state[n] = (d.produced_parts, d.value)
        elif k == 'buffer':
            state[n] = (d.level(),)
        elif k == 'proc':
            state[n] = (d.uptime, d.utilization_time)
    return data, state, world.env.now


ID_FIELDS = {'received_part': [1], 'produced_part': [1], 'supplied_new_part': [1], 'device_failure': [1]}


def _compare(ctx, a, b, off, label):
    z = ctx.z
    da, sa, na = a
    db, sb, nb = b
    with ctx.notrace():
        ctx.require(set(da) == set(db), label, 'different record tables')
        conds = [z(na) == z(nb)]
        for key in da:
            ra, rb = da[key], db[key]
            ctx.require(len(ra) == len(rb), label, f'{key}: {len(ra)} vs {len(rb)} records')
            ids = ID_FIELDS.get(key[0], [])
            for x, y in zip(ra, rb):
                ctx.require(len(x) == len(y), label, str(key))
                for i, (u, v) in enumerate(zip(x, y)):
                    if u is None or v is None or isinstance(u, str):
                        ctx.require(u == v, label, str(key))
                    elif i in ids:
                        conds.append(z(v) == z(u) + off)
                    else:
                        conds.append(z(u) == z(v))
        for n in sa:
            for u, v in zip(sa[n], sb[n]):
                conds.append(z(u) == z(v))
        ctx.require(ctx.And(*conds), label, 'a recorded value, counter or the final clock differs')


def _run_model(ctx, spec, args, horizons, hash_order=None):
    spec = dict(copy.deepcopy(spec), horizons=horizons)
    world = L.World(ctx, spec, args)
    world.hash_order = hash_order
    L.run_world(world, [])
    return world


def _seeded_twice(ctx, spec, args):
    """Concrete runs only (sample paths and counterexamples replayed on CPython): the same model, with the solver-chosen
    parameters of this path, is run twice with the *real* random module seeded identically before each run - the property's
    own wording.  State that survives from one run to the next (anything but the seed) must not change the results."""
    import random as real_random
    import simprocesd.model.simulation as sim
    from engine import stubs
    saved = sim.random
    sim.random = real_random
    try:
        for seed in range(12):      # a dozen seeds: a tie-break that goes the same way by luck under one seed will not under all
            snaps = []
            for _ in range(2):
                real_random.seed(seed)
                stubs.reset_globals()
                snaps.append(_snapshot(_run_model(ctx, spec, args, [10 ** 7], hash_order='asc')))
            _compare(ctx, snaps[0], snaps[1], 0, 'two runs of the same model with the same random seed differ')
    finally:
        sim.random = saved
    ctx.goal('seeded_runs_matched')


def run(shape, args, ctx):
    mode = shape['mode']
    if mode == 'multi':
        return _multi(shape, args, ctx)
    spec = shape['spec']
    z = ctx.z
    if mode == 'twice':
        w1 = _run_model(ctx, spec, args, [10 ** 7], hash_order='asc')
        s1 = _snapshot(w1)
        base = ctx.rng
        weights = list(base.handed)
        # tie-breaks decided something iff two events of one instant had equal priority; a merge topology makes that likely
        Asset._id_counter = shape['off'] if 'off' in shape else args['off']
        System._instance = None
        ctx.rng = _Replay(weights, base)
        w2 = _run_model(ctx, spec, args, [10 ** 7], hash_order='desc')     # another memory layout (S10)
        s2 = _snapshot(w2)
        ctx.rng = base
        _compare(ctx, s1, s2, z(shape['off'] if 'off' in shape else args['off']),
                 'second run with the same weights differs (beyond asset-id numbering)')
        ctx.goal('second_run_matched')
        with ctx.notrace():
            # two hand-over attempts competed within one instant: the weights decided who went first
            for name in ('b', 'p1', 'p2'):
                recs = w1.env.simulation_data.get('received_part', {}).get(name, [])
                other = w1.env.simulation_data.get('received_part', {}).get({'p1': 'p2', 'p2': 'p1'}.get(name, name), [])
                for x in recs:
                    for y in other:
                        if x is not y:
                            ctx.goal_if('tie_break_decided_outcome', z(x[0]) == z(y[0]))
        if not ctx.symbolic:
            _seeded_twice(ctx, spec, args)
        return
    # split
    base = ctx.rng
    state = {'term': False}

    class _Streams:
        """weights by creation order for ordinary events; TERMINATE events draw from their own stream"""

        def __init__(self, replay=None):
            self.main, self.replay, self.i = [], replay, 0

        @property
        def handed(self):
            return base.handed

        def random(self):
            if state['term']:
                return base.random()
            if self.replay is not None and self.i < len(self.replay):
                v = self.replay[self.i]
                self.i += 1
                return v
            v = base.random()
            self.main.append(v)
            return v

    def flagging(world):
        real = world.env.schedule_event

        def sched(time, asset_id, action, event_type=EventType.OTHER_LOW_PRIORITY, message=''):
            state['term'] = event_type is EventType.TERMINATE
            try:
                return real(time, asset_id, action, event_type, message)
            finally:
                state['term'] = False
        world.env.schedule_event = sched
    a = args['a']
    H = 4 * T
    streams = _Streams()
    ctx.rng = streams
    wa = _build_and_run(ctx, spec, args, [a, H - a], flagging)
    sa = _snapshot(wa)
    Asset._id_counter = 0
    System._instance = None
    ctx.rng = _Streams(replay=streams.main)
    wb = _build_and_run(ctx, spec, args, [H], flagging)
    sb = _snapshot(wb)
    ctx.rng = base
    _compare(ctx, sa, sb, 0, 'run(a); run(b) differs from run(a+b) with the same tie-break choices')
    ctx.goal('split_matched')
    with ctx.notrace():
        recs = wa.env.simulation_data.get('received_part', {}).get('snk', [])
        if recs:
            ctx.goal_if('split_inside_activity', ctx.And(z(a) > 0, z(a) < z(recs[-1][0])))


def _build_and_run(ctx, spec, args, horizons, hook):
    spec = dict(copy.deepcopy(spec), horizons=horizons)
    world = L.World(ctx, spec, args)
    system = L.build(world)
    hook(world)
    for f in world.deferred:
        f()
    world.monitors = []
    world.max_events = 10 ** 4
    L.install_step_wrapper(world)
    L._schedule_ops(world)
    for h in horizons:
        system.simulate(h, print_summary=False)
    return world


# ------------------------------------------------------------------------------------------------------
class _Future:
    def __init__(self, value):
        self._v = value

    def result(self, timeout=None):
        return self._v


class _SyncExecutor:
    used = 0

    def __init__(self, max_workers=None):
        self.max_workers = max_workers

    def __enter__(self):
        return self

    def __exit__(self, *a):
        return False

    def submit(self, fn, *a, **k):
        _SyncExecutor.used += 1
        return _Future(fn(*a, **k))


class _FuturesStub:
    ProcessPoolExecutor = _SyncExecutor


class _ConcurrentStub:
    futures = _FuturesStub


def _multi(shape, args, ctx):
    import simprocesd.model.system as sysmod
    from simprocesd.model.factory_floor import Source, Sink, PartProcessor, PartGenerator
    z = ctx.z
    n, mp = shape['n'], shape['mp']
    c1 = args['c1']
    seen = []

    def simulation(system, index, extra, kw=None):
        seen.append((index, extra, kw))
        system.tag = index
        src = Source('src', PartGenerator('P'), 1, 2)
        p = PartProcessor('p', [src], c1 + index)
        Sink('snk', [p], 0)
        system.simulate(10 ** 7, print_summary=False)

    saved = sysmod.concurrent
    sysmod.concurrent = _ConcurrentStub
    _SyncExecutor.used = 0
    try:
        ref = System.simulate_multiple_times(simulation, n, 0, 'x', kw='y')
        used_before = _SyncExecutor.used
        systems = System.simulate_multiple_times(simulation, n, mp, 'x', kw='y')
    finally:
        sysmod.concurrent = saved
    with ctx.notrace():
        ctx.require(used_before == 0, 'max_processes=0 must run in the calling process')
        ctx.goal('in_process_used')
        if mp != 0:
            ctx.require(_SyncExecutor.used == n, 'executor did not receive one submission per simulation')
            ctx.goal('executor_used')
        ctx.require(len(systems) == n and len(ref) == n, 'simulate_multiple_times did not return one system per index')
        ctx.require(len(set(id(s) for s in systems)) == n, 'the same system was returned twice')
        for i, (s, r) in enumerate(zip(systems, ref)):
            ctx.require(getattr(s, 'tag', None) == i and getattr(r, 'tag', None) == i, 'systems not returned in index order', f'position {i}')
            da = s.simulation_data.get('received_part', {}).get('snk', [])
            db = r.simulation_data.get('received_part', {}).get('snk', [])
            ctx.require(len(da) == len(db) == 2, 'a simulation did not deliver its parts', f'index {i}')
            ctx.require(ctx.And(*[z(x[0]) == z(y[0]) for x, y in zip(da, db)]), 'results differ between in-process and executor runs', f'index {i}')
            ctx.require(z(da[0][0]) == 1 + z(c1) + i, 'a simulation did not receive its own index', f'index {i}')
        for idx, extra, kw in seen:
            ctx.require(extra == 'x' and kw == 'y', 'additional arguments not passed to the simulation function')
