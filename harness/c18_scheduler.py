"""C18 Action schedules follow their timetable.

Real ActionScheduler on a real System.  Timetable of L entries with symbolic durations,
cyclical in {default, True, False}; register / unregister operations are issued by other
events at symbolic instants; the horizon is symbolic.  The timetable is evaluated
independently (prefix sums as z3 terms) and compared with the 'schedule_update' records,
current_state and the log of action invocations.
"""
import itertools

from simprocesd.model import System, EventType
from simprocesd.model.factory_floor import ActionScheduler

from harness.util import pack, split_by_order

PROPERTY = 'C18'
T = 10 ** 5
ENCODED = ['ActionScheduler.__init__', 'ActionScheduler.initialize', 'ActionScheduler._update_state',
           'ActionScheduler._schedule_next_transition', 'ActionScheduler.register_object', 'ActionScheduler.unregister_object',
           'ActionScheduler.current_state', 'Environment.schedule_event/step/run', 'System.simulate']
ASSUMPTIONS = ['integer durations (fractional durations only through the integer grid)',
               '(un)registration is issued from separate events, not from inside an action']


class LogScheduler(ActionScheduler):
    """default_action is the documented hook; it logs."""
    calls = None

    def default_action(self, obj, time, new_state):
        self.calls.append(('default', self, obj, time, new_state, self.current_state))


STATES = {1: ['A'], 2: ['A', 'B'], 3: ['A', 'B', 'A']}
OPS = {
    'none': [],
    'reg2': [('reg', 'o2', 't0')],
    'unreg1': [('unreg', 'o1', 't0')],
    'reg2-unreg1': [('reg', 'o2', 't0'), ('unreg', 'o1', 't1')],
    'unreg1-rereg1': [('unreg', 'o1', 't0'), ('reg', 'o1', 't1')],
    'dupreg-unknownunreg': [('reg', 'o1', 't0'), ('unreg', 'o3', 't0')],
    'reg2-unreg1-rereg1': [('reg', 'o2', 't0'), ('unreg', 'o1', 't0'), ('reg', 'o1', 't1')],
}


def _subs(tier):
    out = []
    ls = [2, 3] if tier == 'quick' else [1, 2, 3]
    ops = ['none', 'reg2', 'unreg1-rereg1', 'dupreg-unknownunreg', 'reg2-unreg1-rereg1'] if tier == 'quick' else list(OPS)
    for L, cyc, op, prio in itertools.product(ls, ['default', True, False], ops, ['low', 'high']):
        if op == 'none' and prio == 'high':
            continue
        if tier == 'quick' and prio == 'high' and op != 'reg2':
            continue
        if tier == 'quick' and L == 3 and op in ('unreg1-rereg1', 'reg2-unreg1-rereg1'):
            continue
        two = len({o[2] for o in OPS[op]}) == 2
        if tier != 'quick' and two and (cyc is True or (prio == 'high' and op != 'reg2-unreg1')):
            continue      # sized to the budget: explicit True behaves like the default; one two-instant pattern at high priority
        params = [[f'd{i}', 0, T] for i in range(L)] + [['H', 0, 4 * T]]
        ts = sorted({o[2] for o in OPS[op]})
        params += [[t, 0, 4 * T] for t in ts]
        periods = 2 if (tier == 'quick' or (L == 3 and two)) else 3
        pre = [' + '.join(f'd{i}' for i in range(L)) + ' >= 1', f'H < {periods} * (' + ' + '.join(f'd{i}' for i in range(L)) + ')']
        if len(ts) == 2:
            pre.append('t0 <= t1')
        sub = {'name': f'L{L}-cyc{cyc}-{op}-{prio}', 'shape': {'L': L, 'cyc': cyc, 'ops': op, 'prio': prio},
               'params': params, 'pre': pre}
        if len(ts) == 2:      # two operation instants: case split by where they fall in the first period
            out += split_by_order(sub, [('t0', 'd0'), ('t1', ' + '.join(f'd{i}' for i in range(L)))])
        else:
            out.append(sub)
    return out


def jobs(tier):
    return pack(_subs(tier), 48 if tier == 'quick' else 64, lambda s: 3.0 ** len(s['params']), 'c18-', weights='distinct',
                timeout=240 if tier == 'quick' else 300)


def bounds_text(tier):
    return ('timetables of ' + ('2-3' if tier == 'quick' else '1-3') + ' entries (states A,B / A,B,A: a repeated state included) with '
            'symbolic integer durations >= 0 (sum >= 1), is_cyclical in {default, True, False}, objects o1 (default action) and o2 '
            '(override action) with register / unregister / duplicate-register / unknown-unregister operations issued by events '
            'of low or high priority at symbolic instants, horizon symbolic < ' + ('2' if tier == 'quick' else '3 (2 for three entries with two operation instants)') + ' periods; every tie-break order')


def required_goals(tier):
    return ['wrapped_around', 'stopped_in_last_state', 'zero_duration_state', 'late_registration_effective_next_change',
            'unregistered_object_skipped', 'op_at_change_instant', 'duplicate_registration_refused',
            'reregistered_object_moved_to_the_end'] + \
        (['second_period'] if tier == 'thorough' else [])


def signature(f):
    return f['label']


def run(shape, args, ctx):
    z = ctx.z
    L = shape['L']
    system = System()
    env = system.env
    durs = [args[f'd{i}'] for i in range(L)]
    zd = [z(d) for d in durs]
    states = STATES[L]
    calls = []
    kw = {} if shape['cyc'] == 'default' else {'is_cyclical': shape['cyc']}
    sched = LogScheduler([(durs[i], states[i]) for i in range(L)], name='sch', **kw)
    sched.calls = calls
    cyclical = True if shape['cyc'] == 'default' else shape['cyc']
    objs = {'o1': object(), 'o2': object(), 'o3': object()}

    def override(s, obj, time, new_state):
        calls.append(('override', s, obj, time, new_state, s.current_state))
    registered = []      # reference: (name, uses_override) in registration order
    ctx.require(sched.register_object(objs['o1']) is True, 'first registration refused')
    registered.append(('o1', False))
    st = {'records': 0, 'calls': 0}

    def do_op(kind, name):
        present = any(n == name for n, _ in registered)
        if kind == 'reg':
            # a duplicate registration passes the *other* action: it must change nothing
            action = override if (name == 'o2') != present else None
            ret = sched.register_object(objs[name], action)
            ctx.require(ret == (not present), 'register_object return value wrong', name)
            if present:
                ctx.goal('duplicate_registration_refused')
            else:
                registered.append((name, name == 'o2'))
        else:
            ret = sched.unregister_object(objs[name])
            ctx.require(ret == present, 'unregister_object return value wrong', name)
            if present:
                registered[:] = [r for r in registered if r[0] != name]

    prio = EventType.OTHER_LOW_PRIORITY if shape['prio'] == 'low' else EventType.OTHER_HIGH_PRIORITY
    for kind, name, t in OPS[shape['ops']]:
        env.schedule_event(args[t], -7, (lambda kind=kind, name=name: do_op(kind, name)), prio, f'{kind} {name}')

    def change_time(k):
        """Instant of the k-th state change (k = 0: start-up)."""
        s = 0
        for j in range(k):
            s = s + zd[j % L]
        return s

    def check_event():
        with ctx.notrace():
            recs = env.simulation_data.get('schedule_update', {}).get('sch', [])
            now = z(env.now)
            snapshot = list(registered)
            new = recs[st['records']:]
            ctx.require(len(new) <= 1, 'two schedule_update records from one event')
            new_calls = calls[st['calls']:]
            if new:
                k = st['records']
                rec = new[0]
                ctx.require(cyclical or k < L, 'non-cyclical schedule changed state after its last entry')
                ctx.require(z(rec[0]) == change_time(k), 'state change not at the sum of the preceding durations', f'change {k}')
                ctx.require(z(rec[0]) == now, 'schedule_update record not stamped with the current time')
                ctx.require(rec[1] == states[k % L], 'wrong state in schedule_update record', f'change {k}')
                ctx.require(sched.current_state == states[k % L], 'current_state != state of the timetable', f'change {k}')
                want = [('override' if ov else 'default', objs[n]) for n, ov in st['registered_before']]
                got = [(c[0], c[2]) for c in new_calls]
                ctx.require(len(got) == len(want) and all(a[0] == b[0] and a[1] is b[1] for a, b in zip(got, want)),
                            'actions at a state change != one per registered object in registration order',
                            f'change {k}: wanted {[w[0] for w in want]} got {[g[0] for g in got]}')
                for c in new_calls:
                    ctx.require(c[1] is sched and c[4] == states[k % L], 'action arguments wrong (scheduler / new state)')
                    ctx.require(c[5] == c[4], 'current_state seen from inside the action is not the new state')
                    ctx.require(z(c[3]) == now, 'action argument time != current time')
                if k >= L:
                    ctx.goal('wrapped_around')
                if k >= 2 * L:
                    ctx.goal('second_period')
                if k >= 1:
                    ctx.goal_if('zero_duration_state', zd[(k - 1) % L] == 0)
                if any(n == 'o2' for n, _ in st['registered_before']):
                    ctx.goal('late_registration_effective_next_change')
                if not any(n == 'o1' for n, _ in st['registered_before']):
                    ctx.goal('unregistered_object_skipped')
                if [n for n, _ in st['registered_before']] == ['o2', 'o1']:
                    ctx.goal('reregistered_object_moved_to_the_end')
            else:
                ctx.require(not new_calls, 'actions invoked without a state change')
                if st['records'] >= 1:
                    ctx.goal_if('op_at_change_instant', now == change_time(st['records'] - 1))
            st['records'] = len(recs)
            st['calls'] = len(calls)

    def before_clock_advance():
        """All changes due by now have happened: the next change lies in the future."""
        with ctx.notrace():
            k = st['records']
            now = z(env.now)
            ctx.require(k >= 1, 'no start-up state')
            if cyclical or k < L:
                ctx.require(change_time(k) > now, 'a state change that is due has not happened although time advances', f'change {k}')
            else:
                ctx.goal('stopped_in_last_state')
            ctx.require(sched.current_state == states[(k - 1) % L], 'current_state != state prescribed by the timetable')

    real_step = env.step

    def step():
        with ctx.notrace():
            ctx.count('events')
            head = env._events[0]
            adv = ctx.decide(z(head.time) > z(env.now))
        if not st.get('started'):
            st['started'] = True
            check_event()              # change 0 was performed by initialize(), outside any event
        st['registered_before'] = list(registered)
        if adv:
            before_clock_advance()
        real_step()
        check_event()
    env.step = step
    # start-up: initialize() performs change 0 outside any event
    st['registered_before'] = list(registered)
    system.simulate(args['H'], print_summary=False)
    before_clock_advance()
    with ctx.notrace():
        recs = env.simulation_data.get('schedule_update', {}).get('sch', [])
        ctx.require(len(recs) >= 1 and z(recs[0][0]) == 0 and recs[0][1] == states[0], 'start-up state not recorded at time 0')
