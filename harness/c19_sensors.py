"""C19 Sensors sample when they should and keep bounded, aligned data.

(a) PeriodicSensor with symbolic interval, concrete data capacity c, 1-2 attribute probes
    on a target whose attributes other events change at symbolic instants, symbolic horizon,
    two on-sense callbacks and a Cms registered twice.
(b) OutputPartSensor with sensing interval n on a processor of a small line with a failure.
"""
from simprocesd.model import System, EventType
from simprocesd.model.factory_floor import Source, Sink, PartProcessor, PartGenerator
from simprocesd.model.sensors import PeriodicSensor, AttributeProbe, OutputPartSensor, Probe
from simprocesd.model.cms import Cms

from harness.util import pack

PROPERTY = 'C19'
T = 10 ** 5
ENCODED = ['Sensor.__init__/initialize/_collect_data/sense/add_on_sense_callback/last_sense', 'PeriodicSensor.initialize/'
           '_periodic_sense/_schedule_next_sense', 'OutputPartSensor.initialize/_probe_part', 'Probe.probe', 'AttributeProbe._get_data',
           'Cms.add_sensor/on_sense', 'PartProcessor._finish_cycle (finish-processing callbacks)', 'Environment.step/run']
ASSUMPTIONS = ['integer interval (k-fold repeated addition is then exact)', 'probed attributes are ints or lists of ints']


class Target:
    pass


class LogCms(Cms):
    def __init__(self, log):
        super().__init__(None, 'cms')
        self.log = log

    def on_sense(self, sensor, time, data):
        self.log.append((sensor, time, list(data)))


def _subs(tier):
    out = []
    caps = [1, 2, None] if tier == 'quick' else [1, 2, 3, None]
    for cap in caps:
        for nprobes in ([2] if tier == 'quick' else [1, 2]):
            for prio in ['low', 'high']:
                c = cap if cap is not None else 3
                params = [['iv', 1, T], ['H', 0, 10 * T], ['t0', 0, 10 * T], ['v0', -T, T], ['v1', -T, T]]
                pre = [f'H <= {c + 2} * iv']
                out.append({'name': f'periodic-cap{cap}-p{nprobes}-{prio}',
                            'shape': {'kind': 'periodic', 'cap': cap, 'nprobes': nprobes, 'prio': prio}, 'params': params, 'pre': pre})
    for n in ([0, 1] if tier == 'quick' else [0, 1, 2]):
        for fail in [False, True]:
            params = [['c1', 1, T]] + ([['t0', 1, 10 * T], ['t1', 1, 10 * T]] if fail else [])
            pre = ['t0 <= t1'] if fail else []
            out.append({'name': f'outputpart-n{n}-{"fail" if fail else "nofail"}',
                        'shape': {'kind': 'output', 'n': n, 'fail': fail, 'cap': 2 if n == 0 else None}, 'params': params, 'pre': pre})
    # several sensors - two of them with the same name - on one Cms, one sensor on two Cms
    out.append({'name': 'cms-two-sensors-sharing-a-name-and-two-cms', 'shape': {'kind': 'cms'},
                'params': [['iv', 1, T], ['H', 0, 10 * T]], 'pre': ['H <= 2 * iv']})
    return out


def jobs(tier):
    return pack(_subs(tier), 32 if tier == 'quick' else 64, lambda s: 1.0, 'c19-', weights='distinct',
                timeout=240 if tier == 'quick' else 300)


def bounds_text(tier):
    return ('periodic sensor: interval symbolic >= 1, data capacity in {1,2,' + ('' if tier == 'quick' else '3,') + 'unbounded}, 1-2 attribute probes (an int and a '
            'list attribute) changed by an event of low/high priority at a symbolic instant, horizon symbolic <= (c+2) intervals, two '
            'on-sense callbacks, Cms.add_sensor called twice; three periodic sensors (two sharing a name) on one Cms, one of them also on a second Cms; output-part sensor: sensing interval n in {0,1' + ('' if tier == 'quick' else ',2') + '} on the '
            'processor of Source -> P -> Sink with 2n+3 parts, symbolic cycle time, optional failure and restore at symbolic instants')


def required_goals(tier):
    return ['series_trimmed', 'attribute_changed_between_measurements', 'change_at_measurement_instant', 'cms_received',
            'add_sensor_again_during_run', 'cms_received_from_sensors_sharing_a_name', 'sensor_on_two_cms',
            'part_skipped', 'part_measured_after_failure']


def signature(f):
    return f['label']


def run(shape, args, ctx):
    if shape['kind'] == 'periodic':
        _periodic(shape, args, ctx)
    elif shape['kind'] == 'cms':
        _cms(shape, args, ctx)
    else:
        _output(shape, args, ctx)


def _periodic(shape, args, ctx):
    z = ctx.z
    system = System()
    env = system.env
    tgt = Target()
    tgt.x = 7
    tgt.lst = [1, 2]
    probes = [AttributeProbe('x', tgt)] + ([AttributeProbe('lst', tgt)] if shape['nprobes'] == 2 else [])
    cap = shape['cap']
    kw = {} if cap is None else {'data_capacity': cap}
    sensor = PeriodicSensor(args['iv'], probes, name='ps', **kw)
    calls = []
    cms_log = []
    sensor.add_on_sense_callback(lambda s, t, d: calls.append(('A', s, t, d, tgt.x, tgt.lst, list(tgt.lst))))
    sensor.add_on_sense_callback(lambda s, t, d: calls.append(('B', s, t, d, tgt.x, tgt.lst, list(tgt.lst))))
    cms = LogCms(cms_log)
    cms.add_sensor(sensor)
    cms.add_sensor(sensor)
    ziv = z(args['iv'])
    prio = EventType.OTHER_LOW_PRIORITY if shape['prio'] == 'low' else EventType.OTHER_HIGH_PRIORITY

    def change():
        tgt.x = args['v0']
        tgt.lst = [args['v1'], 5]
        ctx.goal('attribute_changed')
    env.schedule_event(args['t0'], -7, change, prio, 'change attribute')
    # the sensor is registered with the Cms once more while the simulation is running
    env.schedule_event(args['t0'], -7, lambda: (cms.add_sensor(sensor), ctx.goal('add_sensor_again_during_run')), prio, 'add_sensor again')
    st = {'n': 0}
    measurements = []   # reference: (time, [values]) per measurement, from what the first callback saw

    def check():
        with ctx.notrace():
            k_new = len(calls) // 2
            ctx.require(len(calls) % 2 == 0, 'an on-sense callback was skipped')
            for k in range(st['n'], k_new):
                a, b = calls[2 * k], calls[2 * k + 1]
                ctx.require(a[0] == 'A' and b[0] == 'B', 'on-sense callbacks not called once each in registration order')
                ctx.require(a[1] is sensor and b[1] is sensor, 'callback did not receive the sensor')
                ctx.require(z(a[2]) == (k + 1) * ziv, 'k-th measurement not at k intervals after the start', f'k={k + 1}')
                ctx.require(z(a[2]) == z(env.now) and z(b[2]) == z(a[2]), 'callback time != current time')
                vals = a[3]
                ctx.require(len(vals) == len(probes), 'callback value list has wrong length')
                ctx.require(z(vals[0]) == z(a[4]), 'measured value != probed attribute at that moment')
                if len(probes) == 2:
                    ctx.require(vals[1] is not a[5], 'measurement stored the probed object itself, not a copy')
                    ctx.require(len(vals[1]) == len(a[6]) and ctx.And(*[z(p) == z(q) for p, q in zip(vals[1], a[6])]),
                                'measured list != probed attribute at that moment')
                measurements.append((z(a[2]), [z(vals[0])] + ([[z(v) for v in vals[1]]] if len(probes) == 2 else [])))
                if k >= 1:
                    ctx.goal_if('attribute_changed_between_measurements', measurements[k][1][0] != measurements[k - 1][1][0])
                ctx.goal_if('change_at_measurement_instant', z(args['t0']) == z(a[2]))
            st['n'] = k_new
            # Cms: every measurement exactly once although add_sensor was called twice
            ctx.require(len(cms_log) == k_new, 'Cms did not receive each measurement exactly once')
            if cms_log:
                ctx.goal('cms_received')
            # bounded, aligned series
            keep = k_new if cap is None else min(k_new, cap)
            if cap is not None and k_new > cap:
                ctx.goal('series_trimmed')
            want = measurements[k_new - keep:]
            times = sensor.data['time']
            ctx.require(len(times) == keep, 'time series does not hold the most recent min(count, capacity) entries',
                        f'{len(times)} entries for {k_new} measurements, capacity {cap}')
            for j, p in enumerate(probes):
                series = sensor.data[p]
                ctx.require(len(series) == keep, 'probe series does not hold the most recent min(count, capacity) entries')
                for i in range(keep):
                    if j == 0:
                        ctx.require(z(series[i]) == want[i][1][0], 'probe series entry != value measured at that time')
                    else:
                        ctx.require(ctx.And(*[z(u) == v for u, v in zip(series[i], want[i][1][1])]), 'probe series entry != value measured')
            for i in range(min(keep, len(times))):
                ctx.require(z(times[i]) == want[i][0], 'time series not aligned with the probe series')
            if k_new:
                last = sensor.last_sense
                ctx.require(len(last) == len(probes) and z(last[0]) == measurements[-1][1][0], 'last_sense != last measurement')

    real_step = env.step

    def step():
        with ctx.notrace():
            ctx.count('events')
            head = env._events[0]
            adv = ctx.decide(z(head.time) > z(env.now))
        if adv:
            with ctx.notrace():
                # no measurement overdue when time advances
                ctx.require((st['n'] + 1) * ziv > z(env.now), 'a measurement is overdue although time advances')
        real_step()
        check()
    env.step = step
    system.simulate(args['H'], print_summary=False)
    with ctx.notrace():
        ctx.require((st['n'] + 1) * ziv > z(env.now), 'a measurement is overdue at the end of the run')


def _cms(shape, args, ctx):
    """Two periodic sensors that share a name and a third one, all registered with one Cms; the third also with a second
    Cms: each Cms receives every measurement of each of *its* sensors exactly once, with that sensor, the time and the values."""
    z = ctx.z
    system = System()
    env = system.env
    tgt = Target()
    tgt.x = 7
    s1 = PeriodicSensor(args['iv'], [AttributeProbe('x', tgt)], name='temperature')
    s2 = PeriodicSensor(2 * args['iv'], [AttributeProbe('x', tgt)], name='temperature')
    s3 = PeriodicSensor(args['iv'], [AttributeProbe('x', tgt)], name='other')
    made = {id(s): [] for s in (s1, s2, s3)}
    for s in (s1, s2, s3):
        s.add_on_sense_callback(lambda sn, t, d: made[id(sn)].append((z(t), list(d))))
    log_a, log_b = [], []
    cms_a, cms_b = LogCms(log_a), LogCms(log_b)
    for s in (s1, s2, s3, s2):
        cms_a.add_sensor(s)
    cms_b.add_sensor(s3)
    real_step = env.step

    def step():
        with ctx.notrace():
            ctx.count('events')
        real_step()
        with ctx.notrace():
            for log, sensors, nm in ((log_a, (s1, s2, s3), 'first'), (log_b, (s3,), 'second')):
                for s in sensors:
                    got = [(z(t), d) for (sn, t, d) in log if sn is s]
                    ctx.require(len(got) == len(made[id(s)]), 'Cms did not receive each measurement of a registered sensor exactly once',
                                f'{nm} Cms: {len(got)} of {len(made[id(s)])} measurements of sensor {s.name!r} (id {s.id})')
                    if got:
                        ctx.goal('cms_received_from_sensors_sharing_a_name' if s is s2 else 'cms_received')
                ctx.require(len(log) == sum(len(made[id(s)]) for s in sensors), 'Cms received a measurement of a sensor it does not monitor')
            if log_b:
                ctx.goal('sensor_on_two_cms')
    env.step = step
    system.simulate(args['H'], print_summary=False)


def _output(shape, args, ctx):
    z = ctx.z
    n = shape['n']
    nparts = 2 * n + 3
    system = System()
    env = system.env
    src = Source('src', PartGenerator('P', value=0, quality=1), 0, nparts)
    proc = PartProcessor('p', [src], args['c1'])
    Sink('snk', [proc], 0)
    probe = Probe(lambda part: part.id, None)
    kw = {} if shape['cap'] is None else {'data_capacity': shape['cap']}
    sensor = OutputPartSensor(proc, [probe], sensing_interval=n, name='ops', **kw)
    finished = []
    sensed = []
    proc.add_finish_processing_callback(lambda p, part: finished.append(part.id))
    sensor.add_on_sense_callback(lambda s, t, d: sensed.append((z(t), d[0])))
    if shape['fail']:
        def arm():
            proc.schedule_failure(args['t0'], 'h')
        env.schedule_event(0, -7, arm, EventType.OTHER_HIGH_PRIORITY)
        env.schedule_event(args['t1'], -7, proc.restore_functionality, EventType.OTHER_LOW_PRIORITY)
    real_step = env.step
    cap = shape['cap']

    def step():
        with ctx.notrace():
            ctx.count('events')
        real_step()
        with ctx.notrace():
            want = [pid for i, pid in enumerate(finished) if i % (n + 1) == 0]
            ctx.require([s[1] for s in sensed] == want, 'output-part sensor did not measure the first finished part and then every (n+1)-th',
                        f'finished {len(finished)} sensed {len(sensed)}')
            keep = len(want) if cap is None else min(len(want), cap)
            ctx.require(list(sensor.data[probe]) == want[len(want) - keep:], 'series does not hold the most recent min(count, capacity) measurements')
            if len(finished) > len(want):
                ctx.goal('part_skipped')
            lost = [r for r in env.simulation_data.get('device_failure', {}).get('p', []) if r[1] is not None]
            if lost and len(sensed) and sensed[-1][1] > lost[0][1]:
                ctx.goal('part_measured_after_failure')
    env.step = step
    system.simulate(10 ** 8, print_summary=False)
