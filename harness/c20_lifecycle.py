"""C20 System lifecycle: registration, single initialisation, late-created assets.

(a) 'life': sequences of {new System, create asset, simulate(system i, d)}: assets register with
    the most recently created system, only that system can simulate, initialize runs exactly
    once per asset, find_assets equals a reference filter.
(b) 'late-<kind>': a cell (the asset of that kind plus the minimum context that makes it do
    something) is created at a symbolic instant tc, from inside an event or between two
    simulate calls; a twin cell is created before the start of a fresh system; the late cell's
    observations must equal the twin's shifted by tc.
Every Asset subclass of simprocesd.model must have a recipe here (a class without one is an error).
"""
import inspect

import simprocesd.model as model
from simprocesd.model import System, EventType
from simprocesd.model.factory_floor import (Asset, Source, Sink, PartHandler, PartProcessor, Buffer, DecisionGate, PartBatcher,
                                            Group, Maintainer, Maintainable, ActionScheduler, PartGenerator, Part, Batch,
                                            PartFlowController)
from simprocesd.model.sensors import Sensor, PeriodicSensor, OutputPartSensor, AttributeProbe, Probe
from simprocesd.model.cms import Cms

from harness.util import pack

PROPERTY = 'C20'
T = 10 ** 5
ENCODED = ['System.__init__/add_asset/simulate/_initialize_assets/find_assets', 'Asset.__init__/initialize',
           'constructors and initialize of Source, PartHandler, PartProcessor, Buffer, DecisionGate, PartBatcher, Sink, GroupPath, '
           'Maintainer, ActionScheduler, Sensor, PeriodicSensor, OutputPartSensor, Cms', 'Source.adjust_part_count']
ASSUMPTIONS = ['a late cell is compared with its twin on observable records (times, counts, states); asset ids and names are not compared',
               'uptime of a late-created processor counts from its creation (it must equal the twin\'s uptime, which counts from 0)']

# kind -> Asset classes covered by that cell
RECIPES = {
    'source': [Source], 'handler': [PartHandler], 'processor': [PartProcessor], 'buffer': [Buffer], 'gate': [DecisionGate],
    'batcher': [PartBatcher], 'sink': [Sink], 'grouppath': ['GroupPath', 'GroupInput', 'GroupOutput'], 'maintainer': [Maintainer],
    'scheduler': [ActionScheduler], 'sensor': [Sensor], 'periodic': [PeriodicSensor], 'outputpart': [OutputPartSensor], 'cms': [Cms],
    'flowcontroller': [PartFlowController],
}
TRANSITORY = {'Part', 'Batch', 'Asset'}


def uncovered_classes():
    import simprocesd.model.factory_floor.group as grp
    names = set()
    for v in RECIPES.values():
        for c in v:
            names.add(c if isinstance(c, str) else c.__name__)
    missing = []
    mods = [model.factory_floor, model.sensors, model.cms, grp]
    seen = set()
    for m in mods:
        for n, c in inspect.getmembers(m, inspect.isclass):
            if issubclass(c, Asset) and c.__module__.startswith('simprocesd.model') and n not in seen:
                seen.add(n)
                if n not in names and n not in TRANSITORY:
                    missing.append(n)
    return missing


def _subs(tier):
    out = []
    for kind in RECIPES:
        for how in ['event', 'between', 'init']:
            params = [['tc', 1, T], ['c1', 1, T], ['c2', 0, T]] if how != 'init' else [['c1', 1, T], ['c2', 0, T]]
            out.append({'name': f'late-{kind}-{how}', 'shape': {'mode': 'late', 'kind': kind, 'how': how}, 'params': params})
    # N new System, A create asset, S simulate the latest system, O simulate the first (outdated once a second exists)
    # M two in-process runs through System.simulate_multiple_times (each creates its own system and an asset)
    seqs = ['NAS', 'NASAS', 'NANAS', 'NASNO', 'NAASS', 'NSASAS', 'NANAOS', 'MAOS', 'NAMOAS'] if tier == 'quick' else \
        ['NAS', 'NASAS', 'NANAS', 'NASNO', 'NAASS', 'NSASAS', 'NANAOS', 'NANASS', 'NASNAS', 'NAASNAOSS', 'NSSAS', 'NASSAS', 'NASNAOAS',
         'MAOS', 'NAMOAS', 'MNAOS', 'NASMAS']
    for s in seqs:
        params = [[f'd{i}', 0, T] for i, k in enumerate(s) if k in 'SOM']
        out.append({'name': f'life-{s}', 'shape': {'mode': 'life', 'seq': s}, 'params': params})
    return out


def jobs(tier):
    return pack(_subs(tier), 48, lambda s: 1.0, 'c20-', weights='distinct', timeout=240 if tier == 'quick' else 300)


def bounds_text(tier):
    return ('(a) lifecycle sequences ' + ('of 3-6' if tier == 'quick' else 'of 3-8') + ' operations over {new System, create asset, simulate, two in-process runs through simulate_multiple_times} with symbolic '
            'durations; (b) one late-creation cell per Asset class of simprocesd.model (15 kinds), created at a symbolic instant tc from '
            'inside an event, between two simulate calls, and during the initialisation pass of the first simulate (from a start-up action), compared with a twin created before the start; cycle times / durations / '
            'intervals symbolic')


def required_goals(tier):
    return ['systems_created_by_simulate_multiple_times', 'old_system_refused', 'asset_registered_with_latest_system', 'continued_without_reinit', 'late_cell_matched_twin',
            'created_between_runs', 'created_inside_event', 'created_during_initialisation']


def signature(f):
    return f['label'].split(':')[0]


# ------------------------------------------------------------------------------------------------------
class _Tgt(Maintainable):
    name = 'tgt'

    def __init__(self, dur):
        self.dur = dur

    def get_work_order_duration(self, tag):
        return self.dur


class _Obj:
    x = 3


class _LogCms(Cms):
    def __init__(self, log):
        super().__init__(None, 'cms')
        self.log = log

    def on_sense(self, sensor, time, data):
        self.log.append(('cms', time))


class _LogSched(ActionScheduler):
    def default_action(self, obj, time, new_state):
        self.seen.append((time, new_state))
    seen = None


def _cell(kind, system, args, ctx, created_at):
    """Create the cell *now* (env may be running); return a function giving its observations
    as a list of (label, time-or-value) with absolute times."""
    env = system.env
    c1, c2 = args['c1'], args['c2']
    data = lambda label, name: list(env.simulation_data.get(label, {}).get(name, []))
    if kind in ('handler', 'processor', 'buffer', 'gate', 'batcher', 'sink', 'grouppath', 'flowcontroller', 'outputpart'):
        src = system.find_assets(name='src0')[0]
        sensed = []
        created_at_uptime = [0]
        if kind == 'handler':
            x = PartHandler('x', [src], c1)
        elif kind == 'processor':
            x = PartProcessor('x', [src], c1)
        elif kind == 'buffer':
            x = Buffer('x', [src], c1, 2)
        elif kind == 'gate':
            x = DecisionGate('x', [src], decider_override=lambda g, p: True)
        elif kind == 'batcher':
            x = PartBatcher('x', [src], output_batch_size=2)
        elif kind == 'flowcontroller':
            x = PartFlowController('x', [src])
        elif kind == 'grouppath':
            m = PartHandler('m', None, c1)
            grp = Group('g', [m])           # creates GroupInput and GroupOutput
            x = grp.get_new_group_path('x', [src])
        elif kind == 'outputpart':
            x = system.find_assets(name='p0')[0]
            sensor = OutputPartSensor(x, [Probe(lambda part: 1, None)], sensing_interval=0, name='ops')
            sensor.add_on_sense_callback(lambda s, t, d: sensed.append(t))
        else:
            x = None
        if kind == 'outputpart':
            pass
        elif kind == 'sink':
            Sink('k', [src], c1)
        else:
            Sink('k', [x], c2)
        kick = lambda: src.adjust_part_count(2)

        def obs():
            o = [('sink', r[0]) for r in data('received_part', 'k')]
            if kind not in ('sink', 'gate', 'grouppath', 'flowcontroller', 'outputpart'):
                o += [('x', r[0]) for r in data('received_part', 'x')]
            if kind == 'processor':
                o += [('produced', r[0]) for r in data('produced_part', 'x')]
                o.append(('uptime_total', x.uptime))        # a machine born at tc has been up since tc, like its twin since 0
            if kind == 'outputpart':
                o += [('sensed', t) for t in sensed]
            return o
        def kick2():
            created_at_uptime[0] = x.uptime if kind == 'processor' else 0
            kick()
        return obs, kick2
    if kind == 'source':
        snk = system.find_assets(name='k0')[0]
        s = Source('s', PartGenerator('late'), c1, 2)
        snk.set_upstream([s])
        return (lambda: [('supplied', r[0]) for r in data('supplied_new_part', 's')] + [('sink', r[0]) for r in data('received_part', 'k0')]), None
    if kind == 'maintainer':
        mt = Maintainer('mt', capacity=5)
        tgt = _Tgt(c1)
        res = {}

        def kick():
            res['ok'] = mt.create_work_order(tgt, 'w')
        return (lambda: [('accepted', res.get('ok'))] + [('start', r[0]) for r in data('start_work_order', 'mt')] +
                [('finish', r[0]) for r in data('finish_work_order', 'mt')]), kick
    if kind == 'scheduler':
        sch = _LogSched([(c1, 'A'), (c2 + 1, 'B')], name='sch', is_cyclical=False)
        sch.seen = []
        sch.register_object(_Obj())
        return (lambda: [('update', r[0], r[1]) for r in data('schedule_update', 'sch')] + [('state', sch.current_state)] +
                [('action', t, s) for t, s in sch.seen if s != 'A']), None
    if kind in ('sensor', 'periodic'):
        o = _Obj()
        if kind == 'periodic':
            s = PeriodicSensor(c1, [AttributeProbe('x', o)], name='ps', data_capacity=2)
            return (lambda: [('time', t) for t in s.data['time']] + [('n', len(s.data[s.probes[0]]))]), None
        s = Sensor([AttributeProbe('x', o)], name='s')
        return (lambda: [('n', len(s.data[s.probes[0]])), ('last', list(s.last_sense))]), s.sense
    if kind == 'cms':
        log = []
        ps = PeriodicSensor(c1, [AttributeProbe('x', _Obj())], name='ps1')
        cms = _LogCms(log)
        cms.add_sensor(ps)
        return (lambda: list(log)), None
    raise ValueError(kind)


def _context(kind, system, args):
    """Assets that exist from the start (before the cell is created)."""
    if kind in ('handler', 'processor', 'buffer', 'gate', 'batcher', 'sink', 'grouppath', 'flowcontroller', 'outputpart'):
        # cycle 0, empty budget: its first part is ready at time 0 and leaves when the budget is raised
        src = Source('src0', PartGenerator('ctx'), 0, 0)
        if kind == 'outputpart':
            p = PartProcessor('p0', [src], args['c1'])
            Sink('k', [p], args['c2'])
    elif kind == 'source':
        Sink('k0', None, args['c2'])


def _shift(obs, dt, z):
    out = []
    for o in obs:
        if o[0] in ('accepted', 'state', 'n', 'last', 'uptime_total'):
            out.append(o)
        else:
            out.append((o[0], z(o[1]) + dt) + tuple(o[2:]))
    return out


def _late(shape, args, ctx):
    z = ctx.z
    kind, how = shape['kind'], shape['how']
    tc = args.get('tc', 0)
    # sensors sample forever: three intervals are observed; everything else runs to quiescence
    horizon = 3 * args['c1'] if kind in ('periodic', 'cms') else 4 * T
    # twin: created before the start of its own fresh system
    twin_sys = System()
    _context(kind, twin_sys, args)
    twin_obs, twin_kick = _cell(kind, twin_sys, args, ctx, 0)
    if twin_kick:
        twin_sys.env.schedule_event(0, -7, twin_kick, EventType.OTHER_LOW_PRIORITY, 'kick twin cell')
    twin_sys.simulate(horizon, print_summary=False)
    twin = twin_obs()
    # late cell
    system = System()
    _context(kind, system, args)
    holder = {}
    from engine.ctx import PropertyViolation
    try:
        _late_phase(kind, how, system, args, ctx, tc, horizon, holder)
    except PropertyViolation:
        raise
    except Exception as e:
        import traceback
        ctx.fail(f'late-created {kind}: creating it while the simulation is running raised an exception',
                 f'{type(e).__name__}: {e} | ' + ' | '.join(traceback.format_exc().splitlines()[-3:]))
    late = holder['obs']()
    _compare(kind, late, twin, tc, ctx)


def _late_phase(kind, how, system, args, ctx, tc, horizon, holder):
    if how == 'init':
        # created while the System is initialising its assets on the first simulate(): from the start-up action of
        # an ActionScheduler that was registered before the start
        ctx.goal('created_during_initialisation')

        def create(*a):
            holder['obs'], kick = _cell(kind, system, args, ctx, 0)
            if kick:
                system.env.schedule_event(0, -7, kick, EventType.OTHER_LOW_PRIORITY, 'kick cell')
        boot = ActionScheduler([(10 ** 9, 'boot')], name='boot', is_cyclical=False)
        boot.register_object(object(), create)
        system.simulate(horizon, print_summary=False)
        return
    if how == 'event':
        ctx.goal('created_inside_event')

        def create():
            holder['obs'], kick = _cell(kind, system, args, ctx, tc)
            if kick:
                kick()
        system.env.schedule_event(tc, -7, create, EventType.OTHER_LOW_PRIORITY, 'create late cell')
        system.simulate(tc + horizon, print_summary=False)
    else:
        ctx.goal('created_between_runs')
        system.simulate(tc, print_summary=False)
        holder['obs'], kick = _cell(kind, system, args, ctx, tc)
        if kick:
            # between two runs the kick is issued from an event at the current instant, like for the twin
            system.env.schedule_event(system.env.now, -7, kick, EventType.OTHER_LOW_PRIORITY, 'kick late cell')
        system.simulate(horizon, print_summary=False)


def _compare(kind, late, twin, tc, ctx):
    z = ctx.z
    with ctx.notrace():
        want = _shift(twin, z(tc), z)
        ctx.require(len(late) == len(want), f'late-created {kind}: behaves differently from a twin created before the start',
                    f'{len(late)} observations instead of {len(want)}: late={[o[0] for o in late]} twin={[o[0] for o in want]}')
        for a, b in zip(late, want):
            ctx.require(a[0] == b[0], f'late-created {kind}: behaves differently from a twin created before the start', f'{a[0]} vs {b[0]}')
            for u, v in zip(a[1:], b[1:]):
                if isinstance(u, (list, tuple)):
                    ctx.require(len(u) == len(v) and ctx.And(*[z(p) == z(q) for p, q in zip(u, v)]),
                                f'late-created {kind}: behaves differently from a twin created before the start', a[0])
                elif isinstance(u, str) or u is None or isinstance(v, str) or v is None:
                    ctx.require(u == v, f'late-created {kind}: behaves differently from a twin created before the start', a[0])
                else:
                    ctx.require(z(u) == z(v), f'late-created {kind}: behaves differently from a twin created before the start',
                                f'{a[0]}: value differs from the twin shifted by tc')
        ctx.goal('late_cell_matched_twin')


def _life(shape, args, ctx):
    systems, assets, inits = [], [], {}
    orig_init = Asset.initialize

    def counting(self, env):
        inits[id(self)] = inits.get(id(self), 0) + 1
        return orig_init(self, env)
    Asset.initialize = counting
    try:
        n_sim = {}
        for i, k in enumerate(shape['seq']):
            if k == 'N':
                systems.append(System())
            elif k == 'A':
                cls = [PartHandler, Sink, Buffer][len(assets) % 3]
                a = cls(f'a{len(assets)}')
                assets.append((a, len(systems) - 1))
                ctx.require(a in systems[-1]._assets and all(a not in s._assets for s in systems[:-1]),
                            'asset did not register with the most recently created system')
                ctx.goal('asset_registered_with_latest_system')
                if n_sim.get(len(systems) - 1):
                    ctx.require(inits.get(id(a), 0) == 1 and a.env is systems[-1].env,
                                'asset created after the first simulate was not initialised immediately')
            elif k == 'M':
                # two runs through simulate_multiple_times in the calling process: each run's system is created by the helper
                base = len(systems)

                def fn(system, idx, i=i):
                    systems.append(system)
                    a = Sink(f'm{idx}')
                    assets.append((a, len(systems) - 1))
                    ctx.require(a in system._assets and all(a not in s._assets for s in systems[:-1]),
                                'asset did not register with the most recently created system')
                    system.simulate(args[f'd{i}'], print_summary=False)
                    n_sim[len(systems) - 1] = 1
                res = System.simulate_multiple_times(fn, 2, 0)
                ctx.require(len(res) == 2 and len(systems) == base + 2 and res[0] is systems[base] and res[1] is systems[base + 1],
                            'simulate_multiple_times did not return one system per index in index order')
                ctx.goal('systems_created_by_simulate_multiple_times')
            elif k in 'SO':
                j = len(systems) - 1 if k == 'S' else 0
                s = systems[j]
                try:
                    s.simulate(args[f'd{i}'], print_summary=False)
                    ok = True
                except RuntimeError:
                    ok = False
                ctx.require(ok == (j == len(systems) - 1), 'only the most recently created system may simulate')
                if not ok:
                    ctx.goal('old_system_refused')
                else:
                    if n_sim.get(j):
                        ctx.goal('continued_without_reinit')
                    n_sim[j] = n_sim.get(j, 0) + 1
            for a, j in assets:
                want = 1 if n_sim.get(j) else 0
                ctx.require(inits.get(id(a), 0) == want, 'asset not initialised exactly once before its first event',
                            f'{a.name}: {inits.get(id(a), 0)} initialisations, system simulated {n_sim.get(j, 0)} times')
            # find_assets == reference filter
            if systems:
                s = systems[-1]
                mine = [a for a, j in assets if j == len(systems) - 1]
                for name in [None, 'a0', 'a1']:
                    for typ in [None, PartHandler, Sink]:
                        for sub in [None, PartHandler]:
                            ref = [a for a in mine if (name is None or a.name == name) and (typ is None or type(a) is typ)
                                   and (sub is None or isinstance(a, sub))]
                            got = s.find_assets(name=name, type_=typ, subtype=sub)
                            ctx.require(len(got) == len(ref) and all(x is y for x, y in zip(got, ref)), 'find_assets != reference filter')
                for a in mine:
                    ctx.require(s.find_assets(id_=a.id) == [a], 'find_assets by id wrong')
                    for name in [None, 'a0', 'a1']:
                        for typ in [None, PartHandler, Sink]:
                            for sub in [None, PartHandler]:
                                want = [a] if ((name is None or a.name == name) and (typ is None or type(a) is typ)
                                               and (sub is None or isinstance(a, sub))) else []
                                ctx.require(s.find_assets(name=name, id_=a.id, type_=typ, subtype=sub) == want,
                                            'find_assets != reference filter (id combined with other filters)')
    finally:
        Asset.initialize = orig_init


def run(shape, args, ctx):
    miss = uncovered_classes()
    if miss:
        raise RuntimeError(f'Asset classes without a construction recipe in harness/c20_lifecycle.py: {miss}')
    if shape['mode'] == 'late':
        _late(shape, args, ctx)
    else:
        _life(shape, args, ctx)
