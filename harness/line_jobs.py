"""Job lists of the device-level properties (C02-C06, C08, C11, C13-C17) over the scenario
families of DESIGN.md section 5.  Every analysis = one concrete model shape with symbolic
times; this module only *lists* them, harness/lines.py builds and monitors them."""
import copy

from harness import lines as L
from harness.lines import mk_sub, serial, with_ops
from harness.util import pack, split_by_order

ENCODED_COMMON = [
    'System.__init__/simulate/_initialize_assets', 'Environment.run/step/schedule_event/pause_/unpause_/cancel_matching_events',
    'Asset.__init__/initialize', 'PartFlowController.give_part/_give_part_helper/_can_accept_part/space_available_downstream/'
    'notify_upstream_of_available_space/get_sorted_downstream_list/set_upstream/block_input',
    'PartHandler.give_part/_accept_part/_on_received_new_part/_try_move_part_to_output/_schedule_finish_cycle/_finish_cycle/'
    '_schedule_pass_part_downstream/_pass_part_downstream/_set_waiting_for_part',
    'PartProcessor._can_accept_part/_try_move_part_to_output/_finish_cycle/_fail/_shutdown/shutdown/restore_functionality/'
    'schedule_failure/uptime/utilization_time/start_work/end_work/_release_resources_if_idle/_reserve_resource_callback',
    'Source.initialize/_finish_cycle/_pass_part_downstream/adjust_part_count', 'Sink._on_received_new_part/_finish_cycle',
    'Buffer._can_accept_part/_on_received_new_part/_try_move_part_to_output/_pass_part_downstream/_remaining_wait_time/level',
    'Part/PartGenerator/Batch', 'ResourceManager.*', 'Maintainer.*']
ENCODED = ENCODED_COMMON
ASSUMPTIONS = [
    'A1 finite part budgets; A2 gate predicates depend on the part only; A3 external operations (shutdown, restore, block, '
    'capacity and budget changes, work-order requests) are issued from their own events',
    'times are ints in [0, 10**6] (a parameter in the zero pattern is the constant 0, every other one is >= 1); results '
    'transfer to exactly representable float grids, IEEE rounding is outside',
]


def resources2(nparts, cap=1):
    """F5: Source -> {P1(res r:1), P2(res r:1)} -> Sink, pool r of the given capacity."""
    return {'pools': {'r': cap} if cap else {}, 'devices': [
        {'k': 'source', 'name': 'src', 'cycle': 'c0', 'parts': nparts},
        {'k': 'proc', 'name': 'p1', 'up': ['src'], 'cycle': 'c1', 'res': {'r': 1}},
        {'k': 'proc', 'name': 'p2', 'up': ['src'], 'cycle': 'c2', 'res': {'r': 1}},
        {'k': 'sink', 'name': 'snk', 'up': ['p1', 'p2'], 'cycle': 'cs'}]}


NESTED = {'groups': [{'name': 'gin', 'devices': ['m1']}, {'name': 'gout', 'devices': ['ip']}],
          'devices': [{'k': 'source', 'name': 'src', 'cycle': 'c0', 'parts': 2},
                      {'k': 'proc', 'name': 'm1', 'up': [], 'cycle': 'c1'},
                      {'k': 'path', 'name': 'ip', 'group': 'gin', 'up': []},
                      {'k': 'path', 'name': 'op', 'group': 'gout', 'up': ['src']},
                      {'k': 'sink', 'name': 'snk', 'up': ['op'], 'cycle': 'cs'}]}
REENTRANT = {'groups': [{'name': 'g', 'devices': ['m1']}],
             'devices': [{'k': 'source', 'name': 'src', 'cycle': 'c0', 'parts': 2},
                         {'k': 'proc', 'name': 'm1', 'up': [], 'cycle': 'c1'},
                         {'k': 'path', 'name': 'gp1', 'group': 'g', 'up': ['src']},
                         {'k': 'handler', 'name': 'm2', 'up': ['gp1'], 'cycle': 'c2'},
                         {'k': 'path', 'name': 'gp2', 'group': 'g', 'up': ['m2']},
                         {'k': 'sink', 'name': 'snk', 'up': ['gp2'], 'cycle': 'cs'}]}


def two_lines_shared_tool(n1=1, n2=2):
    """Two separate lines S1->M1->K1, S2->M2->K2 whose machines share one unit of pool 'tool'."""
    return {'pools': {'tool': 1}, 'devices': [
        {'k': 'source', 'name': 's1', 'cycle': 0, 'parts': n1}, {'k': 'source', 'name': 's2', 'cycle': 'c3', 'parts': n2},
        {'k': 'proc', 'name': 'p1', 'up': ['s1'], 'cycle': 'c1', 'res': {'tool': 1}},
        {'k': 'proc', 'name': 'p2', 'up': ['s2'], 'cycle': 'c2', 'res': {'tool': 1}},
        {'k': 'sink', 'name': 'k1', 'up': ['p1'], 'cycle': 0}, {'k': 'sink', 'name': 'k2', 'up': ['p2'], 'cycle': 0}]}


def batches_through_gate(nb=2):
    """Source (batches) -> PartBatcher(2) -> accept-all gate -> slow processor -> Sink: refused batch hand-overs."""
    return {'devices': [{'k': 'source', 'name': 'src', 'cycle': 'c0', 'parts': nb, 'batches': [2] * nb},
                        {'k': 'batcher', 'name': 'bat', 'up': ['src'], 'size': 2},
                        {'k': 'gate', 'name': 'g', 'up': ['bat'], 'pred': 'all'},
                        {'k': 'proc', 'name': 'p1', 'up': ['g'], 'cycle': 'c1'},
                        {'k': 'sink', 'name': 'snk', 'up': ['p1'], 'cycle': 'cs'}]}


def batches_into_batcher(sizes=(3, 3), out=2):
    """Source (batches of 3) -> PartBatcher(2) -> slow processor -> Sink: left-over parts stay in the batcher."""
    return {'devices': [{'k': 'source', 'name': 'src', 'cycle': 'c0', 'parts': len(sizes), 'batches': list(sizes)},
                        {'k': 'batcher', 'name': 'bat', 'up': ['src'], 'size': out},
                        {'k': 'proc', 'name': 'p1', 'up': ['bat'], 'cycle': 'c1'},
                        {'k': 'sink', 'name': 'snk', 'up': ['p1'], 'cycle': 'cs'}]}


def batch_backlog_in_buffer(cap=5, sizes=(2, 2, 2)):
    """Source (batches) -> finite Buffer -> slow processor -> Sink: batches pile up in the buffer."""
    return {'devices': [{'k': 'source', 'name': 'src', 'cycle': 'c0', 'parts': len(sizes), 'batches': list(sizes)},
                        {'k': 'buffer', 'name': 'buf', 'up': ['src'], 'delay': 0, 'cap': cap},
                        {'k': 'proc', 'name': 'p1', 'up': ['buf'], 'cycle': 'c1'},
                        {'k': 'sink', 'name': 'snk', 'up': ['p1'], 'cycle': 'cs'}]}


def buffer_into_batcher(size, nb=2):
    """Source (batches) -> Buffer -> PartBatcher -> Sink: a batch leaving the buffer is unpacked in place downstream."""
    return {'devices': [{'k': 'source', 'name': 'src', 'cycle': 'c0', 'parts': nb, 'batches': ['b0', 'b1'][:nb]},
                        {'k': 'buffer', 'name': 'buf', 'up': ['src'], 'delay': 'd1', 'cap': 6},
                        {'k': 'batcher', 'name': 'bat', 'up': ['buf'], 'size': size},
                        {'k': 'sink', 'name': 'snk', 'up': ['bat'], 'cycle': 'cs'}]}


BLOCKED_FINISHED = {'devices': [{'k': 'source', 'name': 'src', 'cycle': 0, 'parts': 3},
                                {'k': 'proc', 'name': 'p1', 'up': ['src'], 'cycle': 'c1'},
                                {'k': 'handler', 'name': 'h2', 'up': ['p1'], 'cycle': 'c2'},
                                {'k': 'sink', 'name': 'snk', 'up': ['h2'], 'cycle': 0}]}


GROUP_FANOUT = {'groups': [{'name': 'g', 'devices': ['m1']}],
                'devices': [{'k': 'source', 'name': 'src', 'cycle': 'c0', 'parts': 2},
                            {'k': 'proc', 'name': 'm1', 'up': [], 'cycle': 'c1'},
                            {'k': 'path', 'name': 'gp', 'group': 'g', 'up': ['src']},
                            {'k': 'proc', 'name': 'p1', 'up': ['gp'], 'cycle': 'c2'}, {'k': 'proc', 'name': 'p2', 'up': ['gp'], 'cycle': 'c2'},
                            {'k': 'sink', 'name': 'snk', 'up': ['p1', 'p2'], 'cycle': 'cs'}]}
PATH_THEN_SLOW = {'groups': [{'name': 'g', 'devices': ['m1']}],
                  'devices': [{'k': 'source', 'name': 'src', 'cycle': 0, 'parts': 3},
                              {'k': 'proc', 'name': 'm1', 'up': [], 'cycle': 'c1'},
                              {'k': 'path', 'name': 'gp', 'group': 'g', 'up': ['src']},
                              {'k': 'handler', 'name': 'slow', 'up': ['gp'], 'cycle': 'c2'},
                              {'k': 'sink', 'name': 'snk', 'up': ['slow'], 'cycle': 0}]}
REWORK = {'devices': [{'k': 'source', 'name': 'src', 'cycle': 'c0', 'parts': 1, 'value': 0},
                      {'k': 'handler', 'name': 'm', 'up': ['src'], 'up_late': ['src', 'rw'], 'cycle': 'c1'},
                      {'k': 'gate', 'name': 'g_ok', 'up': ['m'], 'pred': 'value_ge1'}, {'k': 'gate', 'name': 'g_bad', 'up': ['m'], 'pred': 'value_lt1'},
                      {'k': 'handler', 'name': 'rw', 'up': ['g_bad'], 'cycle': 'c2', 'recv_addvalue': 1},
                      {'k': 'sink', 'name': 'snk', 'up': ['g_ok'], 'cycle': 0}]}


REWORK_GROUP = {'groups': [{'name': 'g', 'devices': ['m']}],
                'devices': [{'k': 'source', 'name': 'src', 'cycle': 'c0', 'parts': 2, 'value': 0},
                            {'k': 'handler', 'name': 'm', 'up': [], 'cycle': 'c1'},
                            {'k': 'path', 'name': 'gp', 'group': 'g', 'up': ['src'], 'up_late': ['src', 'rw']},
                            {'k': 'gate', 'name': 'g_ok', 'up': ['gp'], 'pred': 'value_ge1'}, {'k': 'gate', 'name': 'g_bad', 'up': ['gp'], 'pred': 'value_lt1'},
                            {'k': 'handler', 'name': 'rw', 'up': ['g_bad'], 'cycle': 'c2', 'recv_addvalue': 1},
                            {'k': 'sink', 'name': 'snk', 'up': ['g_ok'], 'cycle': 0}]}


def _faults_basic(nparts, ops, **kw):
    return with_ops(serial('P', nparts), ops, **kw)


def _subs(tier, prop):
    q = tier == 'quick'
    S = []
    if prop == 'C02':
        mons = ['census']
        for kinds in (['H', 'P', 'B'] if q else ['H', 'P', 'B', 'HP', 'PB', 'BP', 'HB', 'PP', 'BB']):
            S.append(mk_sub(f'F1-{kinds}-n2', serial(kinds, 2, caps={1: 1, 2: 1}), mons))
        S.append(mk_sub('F1-P-n2-zero-cs', serial('P', 2), mons, zero=['cs']))
        S.append(mk_sub('F1-B-n3-cap2', serial('B', 3, caps={1: 2}), mons, zero=['cs'] if q else []))
        S.append(mk_sub('F6-shutdown-fail-restore', _faults_basic(1, [
            {'k': 'shutdown', 'dev': 'p1', 't': 't0'}, {'k': 'armfail', 'dev': 'p1', 't': 't0', 'delay': 'd1'},
            {'k': 'restore', 'dev': 'p1', 't': 't2'}]), mons, zero=['cs'], pre=['t0 + d1 <= t2']))
        S.append(mk_sub('F6-fail-restore-n2', _faults_basic(2, [
            {'k': 'fail', 'dev': 'p1', 't': 't0'}, {'k': 'restore', 'dev': 'p1', 't': 't1'}]), mons, zero=['cs'], pre=['t0 <= t1']))
        # the part budget is cut to zero while a generated part waits in the source, and raised again later
        for c0 in ([0] if q else [0, 'c0']):
            sp = with_ops(serial('P', 3), [{'k': 'budget', 'dev': 'src', 't': 't0', 'n': -2}, {'k': 'budget', 'dev': 'src', 't': 't1', 'n': 1}])
            sp['devices'][0]['cycle'] = c0
            S.append(mk_sub(f'F8-budget-cut-and-raised-c0={c0}', sp, mons, zero=['cs'], pre=['t0 < t1']))
        S.append(mk_sub('F7-batches-into-batcher-slow-consumer', batches_into_batcher(), mons, zero=['cs', 'c0']))
        S.append(mk_sub('F7-batches-of-2-into-batcher-3', batches_into_batcher((2, 2, 2), 3), mons, zero=['cs', 'c0']))
        S.append(mk_sub('F7-buffer-into-batcher-sizeNone', buffer_into_batcher(None), mons, zero=['c0', 'd1', 'cs'],
                        ranges={'b0': (0, 3), 'b1': (0, 3)}))
        S.append(mk_sub('F4-fanout-behind-group-path', GROUP_FANOUT, mons, zero=['cs']))
        S.append(mk_sub('F1-P-empty-budget', serial('P', 0), mons))
        # a processor with resources is offered the next part by its source at the very instant it finishes (its resources
        # are still reserved then); with a slow consumer the finished part still sits in its output
        S.append(mk_sub('F5-resource-processor-fed-at-the-finish-instant', serial('P', 2, res={'r': 1}) | {'pools': {'r': 1}}, mons, pre=['c0 == c1', 'c1 >= 1']))
        S.append(mk_sub('F7-buffer-into-batcher-size2', buffer_into_batcher(2), mons, zero=['c0', 'd1'], ranges={'b0': (0, 3), 'b1': (0, 3)}))
        # the input of a machine is blocked and unblocked again while its finished part still waits for the slow consumer
        S.append(mk_sub('F8-input-unblocked-while-the-finished-part-is-blocked', with_ops(BLOCKED_FINISHED, [
            {'k': 'block', 'dev': 'p1', 't': 't0'}, {'k': 'unblock', 'dev': 'p1', 't': 't1'}]), mons + ['wakeup'],
            pre=['2 * c1 < t0', 't0 < t1', 't1 < c1 + c2']))
    elif prop == 'C03':
        mons = ['wakeup']
        for kinds in (['P', 'B'] if q else ['H', 'P', 'B', 'HP', 'PB', 'BP']):
            S.append(mk_sub(f'F1-{kinds}-n2', serial(kinds, 2, caps={1: 1, 2: 1}), mons))
        S.append(mk_sub('F1-BP-n2-zero', serial('BP', 2, caps={1: 1}), mons, zero=['c0', 'cs']))
        S.append(mk_sub('F6-shutdown-restore-n2', _faults_basic(2, [
            {'k': 'shutdown', 'dev': 'p1', 't': 't0'}, {'k': 'restore', 'dev': 'p1', 't': 't1'}]), mons, zero=['cs'], pre=['t0 <= t1']))
        S.append(mk_sub('F8-block-unblock-n2', with_ops(serial('H', 2), [
            {'k': 'block', 'dev': 'h1', 't': 't0'}, {'k': 'unblock', 'dev': 'h1', 't': 't1'}]), mons, zero=['cs'], pre=['t0 <= t1']))
        S.append(mk_sub('F6-fail-restore-n2', _faults_basic(2, [
            {'k': 'fail', 'dev': 'p1', 't': 't0'}, {'k': 'restore', 'dev': 'p1', 't': 't1'}]), mons, zero=['cs'], pre=['t0 <= t1']))
        S.append(mk_sub('F6-shutdown-armfail-restore', _faults_basic(2, [
            {'k': 'shutdown', 'dev': 'p1', 't': 't0'}, {'k': 'armfail', 'dev': 'p1', 't': 't0', 'delay': 'd1'},
            {'k': 'restore', 'dev': 'p1', 't': 't2'}]), mons, zero=['cs', 'c0'], pre=['t0 + d1 <= t2']))
        S.append(mk_sub('F5-two-procs-one-pool', resources2(2), mons, zero=['cs', 'c0']))
        S.append(mk_sub('F5-pool-raised-later', with_ops(resources2(2, cap=0), [
            {'k': 'addres', 'res': 'r', 'amount': 1, 't': 't0'}]), mons, zero=['cs', 'c0']))
        two_waiters = {'pools': {}, 'devices': [
            {'k': 'source', 'name': 's1', 'cycle': 0, 'parts': 1}, {'k': 'source', 'name': 's2', 'cycle': 0, 'parts': 1},
            {'k': 'proc', 'name': 'p1', 'up': ['s1'], 'cycle': 'c1', 'res': {'r': 1}},
            {'k': 'proc', 'name': 'p2', 'up': ['s2'], 'cycle': 'c1', 'res': {'r': 1}},
            {'k': 'sink', 'name': 'k1', 'up': ['p1'], 'cycle': 0}, {'k': 'sink', 'name': 'k2', 'up': ['p2'], 'cycle': 0}]}
        S.append(mk_sub('F5-two-waiters-pool-raised-by-two', with_ops(two_waiters, [
            {'k': 'addres', 'res': 'r', 'amount': 2, 't': 't0'}]), mons))
        S.append(mk_sub('F5-external-holder-releases', with_ops(serial('P', 2, res={'r': 1}) | {'pools': {'r': 1}}, [
            {'k': 'hold', 'res': 'r', 'amount': 1, 't': 0, 'prio': 'high'}, {'k': 'unhold', 'res': 'r', 't': 't0'}]), mons, zero=['cs']))
        # a machine waiting for a resource is shut down; the resource is released while it is down and busy again
        # when it is restored (targeted order class, times symbolic inside it)
        S.append(mk_sub('F5-shutdown-while-waiting-for-resource', with_ops(two_lines_shared_tool(1, 2), [
            {'k': 'hold', 'res': 'tool', 'amount': 1, 't': 0, 'prio': 'high'}, {'k': 'unhold', 'res': 'tool', 't': 't2'},
            {'k': 'shutdown', 'dev': 'p1', 't': 't0'}, {'k': 'restore', 'dev': 'p1', 't': 't1'}]), mons,
            pre=['t0 < t2', 't2 < c3', 'c3 < t1', 't1 < c3 + c2']))
        S.append(mk_sub('F6-finished-part-blocked-while-down', with_ops(BLOCKED_FINISHED, [
            {'k': 'shutdown', 'dev': 'p1', 't': 't0'}, {'k': 'restore', 'dev': 'p1', 't': 't1'}]), mons,
            pre=['2 * c1 < t0', 't0 < c1 + c2', 'c1 + c2 < t1']))
        S.append(mk_sub('F6-finished-part-blocked-while-failed', with_ops(BLOCKED_FINISHED, [
            {'k': 'fail', 'dev': 'p1', 't': 't0'}, {'k': 'restore', 'dev': 'p1', 't': 't1'}]), mons,
            pre=['2 * c1 < t0', 't0 < c1 + c2', 'c1 + c2 < t1']))
        S.append(mk_sub('F7-batches-into-batcher-slow-consumer', batches_into_batcher(), mons, zero=['cs', 'c0']))
        if not q:
            S.append(mk_sub('F7-batches-into-batcher-n3', batches_into_batcher((3, 3, 3)), mons, zero=['cs']))
        bb = {'devices': [{'k': 'source', 'name': 'src', 'cycle': 0, 'parts': 4},
                          {'k': 'batcher', 'name': 'bat', 'up': ['src'], 'size': 2},
                          {'k': 'buffer', 'name': 'buf', 'up': ['bat'], 'delay': 0, 'cap': 3},
                          {'k': 'proc', 'name': 'p1', 'up': ['buf'], 'cycle': 'c1'},
                          {'k': 'sink', 'name': 'snk', 'up': ['p1'], 'cycle': 0}]}
        S.append(mk_sub('F7-batch-refused-by-a-buffer-that-is-not-full', bb, mons))
        S.append(mk_sub('F4-nested-n2', NESTED, mons, zero=['cs']))
        S.append(mk_sub('F4-reentrant-n2', REENTRANT, mons, zero=['cs', 'c0']))
        S.append(mk_sub('F8-path-blocked-while-downstream-frees', with_ops(PATH_THEN_SLOW, [
            {'k': 'block', 'dev': 'gp', 't': 't0'}, {'k': 'unblock', 'dev': 'gp', 't': 't1'}]), mons,
            pre=['2 * c1 < t0', 't0 < c1 + c2', 'c1 + c2 < t1']))
        S.append(mk_sub('F8-budget-raise', with_ops(serial('H', 1), [
            {'k': 'budget', 'dev': 'src', 't': 't0', 'n': 1}]), mons, zero=['cs']))
        # a machine holds a finished part nobody takes; a consumer is connected later - by an event, or by the
        # user's script between two simulate() calls
        late = {'devices': [{'k': 'source', 'name': 'src', 'cycle': 0, 'parts': 2},
                            {'k': 'proc', 'name': 'p1', 'up': ['src'], 'cycle': 'c1'},
                            {'k': 'sink', 'name': 'snk', 'up': [], 'cycle': 'cs'}]}
        S.append(mk_sub('F8-consumer-connected-by-an-event', with_ops(late, [
            {'k': 'rewire', 'dev': 'snk', 'up': ['p1'], 't': 't0'}]), mons))
        S.append(mk_sub('F8-consumer-connected-between-two-runs', dict(with_ops(late, [
            {'k': 'rewire', 'dev': 'snk', 'up': ['p1'], 'after_run': 0}]), horizons=['h0', 'h1']), mons, pre=['c1 < h0']))
    elif prop == 'C05':
        mons = ['buffer']
        S.append(mk_sub('F1-B-n3-cap1', serial('B', 3, caps={1: 1}), mons, zero=['c0'] if q else []))
        S.append(mk_sub('F1-B-n3-cap2', serial('B', 3, caps={1: 2}), mons, zero=['cs'] if q else []))
        S.append(mk_sub('F1-BP-n2-cap2', serial('BP', 2, caps={1: 2}), mons, zero=['cs']))
        S.append(mk_sub('F1-BP-n3-cap2-slow-consumer', serial('BP', 3, caps={1: 2}), mons, zero=['c0', 'cs']))
        fan = {'devices': [{'k': 'source', 'name': 'src', 'cycle': 'c0', 'parts': 3},
                           {'k': 'buffer', 'name': 'buf', 'up': ['src'], 'delay': 'd1', 'cap': 6},
                           {'k': 'proc', 'name': 'p1', 'up': ['buf'], 'cycle': 'c1'}, {'k': 'proc', 'name': 'p2', 'up': ['buf'], 'cycle': 'c1'},
                           {'k': 'sink', 'name': 'snk', 'up': ['p1', 'p2'], 'cycle': 0}]}
        S.append(mk_sub('F2-delay-buffer-two-consumers', fan, mons, pre=['c0 < d1']))
        fanin = {'devices': [{'k': 'source', 'name': 's1', 'cycle': 'c0', 'parts': 1}, {'k': 'source', 'name': 's2', 'cycle': 'c0', 'parts': 2},
                             {'k': 'buffer', 'name': 'buf', 'up': ['s1', 's2'], 'delay': 0, 'cap': 3},
                             {'k': 'handler', 'name': 'h', 'up': ['buf'], 'cycle': 'c1'},
                             {'k': 'sink', 'name': 'snk', 'up': ['h'], 'cycle': 0}]}
        S.append(mk_sub('F2-fan-in-two-producers-same-instant', fanin, mons))
        two = {'devices': [{'k': 'source', 'name': 'src', 'cycle': 0, 'parts': 4, 'batches': [None, None, 3, None]},
                           {'k': 'buffer', 'name': 'buf', 'up': ['src'], 'delay': 0, 'cap': 8},
                           {'k': 'buffer', 'name': 'buf2', 'up': ['buf'], 'delay': 0, 'cap': 3},
                           {'k': 'proc', 'name': 'p1', 'up': ['buf2'], 'cycle': 'c1'},
                           {'k': 'sink', 'name': 'snk', 'up': ['p1'], 'cycle': 0}]}
        S.append(mk_sub('F7-refused-batch-at-the-head-of-a-buffer', two, mons))
        S.append(mk_sub('F7-batch-backlog-cap5', batch_backlog_in_buffer(5, (2, 2, 2)), mons + ['census'], zero=['cs', 'c0']))
        S.append(mk_sub('F7-batch-backlog-cap4-mixed', batch_backlog_in_buffer(4, (3, None, 2)), mons + ['census'], zero=['cs']))
        S.append(mk_sub('F7-batch-backlog-unlimited-buffer', batch_backlog_in_buffer(None, (3, None, 2)), mons + ['census'], zero=['cs', 'c0']))
        for size in (None, 2):
            S.append(mk_sub(f'F7-buffer-into-batcher-size{size}', buffer_into_batcher(size), mons + ['census'],
                            zero=['c0', 'd1', 'cs'] if q else ['c0'], ranges={'b0': (0, 3), 'b1': (0, 3), 'd1': (0, L.T)}))
    elif prop == 'C06':
        mons = ['cycle']
        S.append(mk_sub('F1-P-n2', serial('P', 2), mons))
        S.append(mk_sub('F1-HP-n2', serial('HP', 2), mons, zero=['cs']))
        S.append(mk_sub('F6-shutdown-restore-n1', _faults_basic(1, [
            {'k': 'shutdown', 'dev': 'p1', 't': 't0'}, {'k': 'restore', 'dev': 'p1', 't': 't1'}]), mons, pre=['t0 <= t1']))
        S.append(mk_sub('F6-shutdown-fail-restore', _faults_basic(2 if not q else 1, [
            {'k': 'shutdown', 'dev': 'p1', 't': 't0'}, {'k': 'armfail', 'dev': 'p1', 't': 't0', 'delay': 'd1'},
            {'k': 'restore', 'dev': 'p1', 't': 't2'}]), mons, zero=['cs'], pre=['t0 + d1 <= t2']))
        if not q:
          S.append(mk_sub('F6-shutdown-restore-shutdown-restore', _faults_basic(1, [
            {'k': 'shutdown', 'dev': 'p1', 't': 't0'}, {'k': 'restore', 'dev': 'p1', 't': 't1'},
            {'k': 'shutdown', 'dev': 'p1', 't': 't2'}, {'k': 'restore', 'dev': 'p1', 't': 't3'}]), mons, zero=['cs'],
            pre=['t0 <= t1', 't1 <= t2', 't2 <= t3']))
        else:
          S.append(mk_sub('F6-shutdown-restore-shutdown', _faults_basic(1, [
            {'k': 'shutdown', 'dev': 'p1', 't': 't0'}, {'k': 'restore', 'dev': 'p1', 't': 't1'},
            {'k': 'shutdown', 'dev': 'p1', 't': 't2'}]), mons, zero=['cs', 'c0'], pre=['t0 <= t1', 't1 <= t2']))
        S.append(mk_sub('F6-fail-restore-n2', _faults_basic(2, [
            {'k': 'fail', 'dev': 'p1', 't': 't0'}, {'k': 'restore', 'dev': 'p1', 't': 't1'}]), mons, zero=['cs'], pre=['t0 <= t1']))
        S.append(mk_sub('F6-two-interruptions-of-one-part', _faults_basic(1, [
            {'k': 'shutdown', 'dev': 'p1', 't': 't0'}, {'k': 'restore', 'dev': 'p1', 't': 't1'},
            {'k': 'shutdown', 'dev': 'p1', 't': 't2'}, {'k': 'restore', 'dev': 'p1', 't': 't3'}]), mons, zero=['cs', 'c0'],
            pre=['t0 < t1', 't1 < t2', 't2 < t3', 't2 < c1 + (t1 - t0)']))
        # a failure armed far ahead is frozen together with the cycle timer, twice: after both restores the timer must run again
        S.append(mk_sub('F6-pending-failure-and-two-interruptions-of-one-part', _faults_basic(1, [
            {'k': 'armfail', 'dev': 'p1', 't': 0, 'delay': 'd1'},
            {'k': 'shutdown', 'dev': 'p1', 't': 't0'}, {'k': 'restore', 'dev': 'p1', 't': 't1'},
            {'k': 'shutdown', 'dev': 'p1', 't': 't2'}, {'k': 'restore', 'dev': 'p1', 't': 't3'}]), mons, zero=['cs', 'c0'],
            pre=['t0 < t1', 't1 < t2', 't2 < t3', 't2 < c1 + (t1 - t0)', 'd1 > c1 + (t1 - t0) + (t3 - t2)']))
        S.append(mk_sub('F8-source-replenished-mid-cycle', with_ops(serial('', 2), [{'k': 'budget', 'dev': 'src', 't': 't0', 'n': 2}]),
                        mons, zero=['cs'], pre=['2 * c0 < t0', 't0 < 3 * c0']))
        S.append(mk_sub('F8-source-replenished', with_ops(serial('', 2), [{'k': 'budget', 'dev': 'src', 't': 't0', 'n': 2}]), mons, zero=['cs']))
        spf = serial('P', 3)
        spf['devices'][1]['finish_offset'] = 'o2'
        S.append(mk_sub('F1-P-finish-callback-offset-zero-cycle', spf, mons, zero=['cs', 'c1'], ranges={'o2': (-L.T, L.T)}))
        S.append(mk_sub('F1-P-finish-callback-offset', spf, mons, zero=['cs', 'c0'], ranges={'o2': (-L.T, L.T)}))
        S.append(mk_sub('F1-P-two-offsets-for-one-cycle', with_ops(serial('P', 2), [
            {'k': 'offset', 'dev': 'p1', 't': 0, 'amount': 'o1', 'prio': 'high'}, {'k': 'offset', 'dev': 'p1', 't': 0, 'amount': 'o2', 'prio': 'high'}]),
            mons, zero=['cs', 'c0'], ranges={'o1': (-L.T, L.T), 'o2': (-L.T, L.T)}))
        spo = serial('PH', 2)
        spo['devices'][1]['pre_offset'] = 'o1'
        spo['devices'][2]['pre_offset'] = 'o2'
        S.append(mk_sub('F1-PH-offsets-requested-before-the-start', spo, mons, zero=['cs', 'c0'], ranges={'o1': (-L.T, L.T), 'o2': (-L.T, L.T)}))
        S.append(mk_sub('F1-P-offset', with_ops(serial('P', 2), [
            {'k': 'offset', 'dev': 'p1', 't': 0, 'amount': 'o1', 'prio': 'high'}]), mons, zero=['cs'],
            ranges={'o1': (-L.T, L.T)}))
    elif prop == 'C13':
        mons = ['uptime']
        S.append(mk_sub('F6-shutdown-restore-n2', _faults_basic(1 if q else 2, [
            {'k': 'shutdown', 'dev': 'p1', 't': 't0'}, {'k': 'restore', 'dev': 'p1', 't': 't1'}]), mons, zero=['cs'], pre=['t0 <= t1']))
        S.append(mk_sub('F6-fail-restore-n2', _faults_basic(2, [
            {'k': 'fail', 'dev': 'p1', 't': 't0'}, {'k': 'restore', 'dev': 'p1', 't': 't1'}]), mons, zero=['cs'], pre=['t0 <= t1']))
        S.append(mk_sub('F6-timer-and-pending-failure-paused-together', _faults_basic(1, [
            {'k': 'fail', 'dev': 'p1', 't': 't1'}, {'k': 'shutdown', 'dev': 'p1', 't': 't0'}, {'k': 'restore', 'dev': 'p1', 't': 't2'},
            {'k': 'restore', 'dev': 'p1', 't': 't3'}]), mons + ['cycle'], zero=['cs', 'c0'],
            pre=['t0 < c1', 't0 < t1', 't0 < t2', 't2 < t3', 't1 + (t2 - t0) < t3']))
        S.append(mk_sub('F6-high-priority-shutdown-at-the-finish-instant', _faults_basic(1, [
            {'k': 'shutdown', 'dev': 'p1', 't': 't0', 'prio': 'high'}, {'k': 'restore', 'dev': 'p1', 't': 't1'}]), mons + ['cycle'], zero=['cs'],
            pre=['t0 == c0 + c1', 't0 < t1']))
        S.append(mk_sub('F6-shutdown-armfail-restore', _faults_basic(1, [
            {'k': 'shutdown', 'dev': 'p1', 't': 't0'}, {'k': 'armfail', 'dev': 'p1', 't': 't0', 'delay': 'd1'},
            {'k': 'restore', 'dev': 'p1', 't': 't2'}]), mons, zero=['cs'], pre=['t0 + d1 <= t2']))
        # a shutdown callback of the user repairs the machine on the spot (restore inside the shutdown, down for zero time)
        for kind in ('fail', 'shutdown'):
            sp = _faults_basic(2, [{'k': kind, 'dev': 'p1', 't': 't0'}])
            sp['devices'][1]['repair_on_the_spot'] = True
            S.append(mk_sub(f'F6-{kind}-repaired-on-the-spot', sp, mons + ['cycle'], zero=['cs']))
        S.append(mk_sub('F6-double-shutdown-double-restore', _faults_basic(1, [
            {'k': 'shutdown', 'dev': 'p1', 't': 't0'}, {'k': 'shutdown', 'dev': 'p1', 't': 't1'},
            {'k': 'restore', 'dev': 'p1', 't': 't2'}, {'k': 'restore', 'dev': 'p1', 't': 't3'}]), mons, zero=['cs', 'c0'] if q else ['cs'],
            pre=['t0 <= t1', 't1 <= t2', 't2 <= t3']))
        S.append(mk_sub('F6-workorder', with_ops(serial('P', 1 if q else 2), [
            {'k': 'workorder', 'dev': 'p1', 't': 't0', 'tag': 'm'}], maint=True, durs={'m': 'w0'}), mons, zero=['cs']))
        for kind in ('fail', 'shutdown'):
            S.append(mk_sub(f'F6-finished-part-blocked-downstream-frees-while-{kind}', with_ops(BLOCKED_FINISHED, [
                {'k': kind, 'dev': 'p1', 't': 't0'}, {'k': 'restore', 'dev': 'p1', 't': 't1'}]), mons + ['wakeup'],
                pre=['2 * c1 < t0', 't0 < c1 + c2', 'c1 + c2 < t1']))
        S.append(mk_sub('F6-two-interruptions-of-one-part', _faults_basic(1, [
            {'k': 'shutdown', 'dev': 'p1', 't': 't0'}, {'k': 'restore', 'dev': 'p1', 't': 't1'},
            {'k': 'shutdown', 'dev': 'p1', 't': 't2'}, {'k': 'restore', 'dev': 'p1', 't': 't3'}]), mons + ['cycle'], zero=['cs', 'c0'],
            pre=['t0 < t1', 't1 < t2', 't2 < t3', 't2 < c1 + (t1 - t0)']))
        S.append(mk_sub('F6-two-work-orders-on-a-busy-machine', with_ops(serial('P', 1), [
            {'k': 'workorder', 'dev': 'p1', 't': 't0', 'tag': 'm'}, {'k': 'workorder', 'dev': 'p1', 't': 't1', 'tag': 'm'}],
            maint=True, durs={'m': 'w0'}), mons, zero=['cs', 'c0'], pre=['t0 < c1', 't0 + w0 < t1', 't1 < c1 + w0']))
        S.append(mk_sub('F6-fail-with-finished-part-blocked', with_ops(serial('PH', 2), [
            {'k': 'fail', 'dev': 'p1', 't': 't0'}, {'k': 'restore', 'dev': 'p1', 't': 't1'}]), mons, zero=['cs', 'c0'],
            pre=['t0 <= t1']))
    elif prop == 'C01':
        # device tier of C01 (thorough only): the dispatch-order monitor rides on real multi-device models
        mons = ['dispatch']
        S.append(mk_sub('F5-two-procs-one-pool-split-run', dict(resources2(2), horizons=['a', 10 ** 7]), mons, zero=['cs', 'c0'],
                        ranges={'a': (0, 3 * L.T)}))
        S.append(mk_sub('F1-P-n2-split-run', dict(serial('P', 2), horizons=['a', 10 ** 7]), mons, zero=['cs'], ranges={'a': (0, 3 * L.T)}))
        if not q:
            S.append(mk_sub('F1-PB-n2', serial('PB', 2, caps={2: 2}), mons, zero=['cs']))
            S.append(mk_sub('F2-fanout-n2', {'devices': [{'k': 'source', 'name': 'src', 'cycle': 'c0', 'parts': 2},
                                                          {'k': 'proc', 'name': 'p1', 'up': ['src'], 'cycle': 'c1'},
                                                          {'k': 'proc', 'name': 'p2', 'up': ['src'], 'cycle': 'c2'},
                                                          {'k': 'sink', 'name': 'snk', 'up': ['p1', 'p2'], 'cycle': 0}]}, mons))
            S.append(mk_sub('F6-shutdown-fail-restore', _faults_basic(2, [
                {'k': 'shutdown', 'dev': 'p1', 't': 't0'}, {'k': 'armfail', 'dev': 'p1', 't': 't0', 'delay': 'd1'},
                {'k': 'restore', 'dev': 'p1', 't': 't2'}]), mons, zero=['cs', 'c0'], pre=['t0 + d1 <= t2']))
            S.append(mk_sub('F6-workorder', with_ops(serial('P', 2), [{'k': 'workorder', 'dev': 'p1', 't': 't0', 'tag': 'm'}],
                                                     maint=True, durs={'m': 'w0'}), mons, zero=['cs', 'c0']))
            S.append(mk_sub('F5-two-procs-one-pool', resources2(2), mons, zero=['cs', 'c0']))
    elif prop == 'C04':
        mons = ['recurrence']
        # station kinds x zero pattern; capacities concrete per analysis
        import itertools
        if q:
            shapes = [('H', 3, {}), ('P', 3, {}), ('B', 3, {1: 1}), ('B', 3, {1: 2}), ('HP', 2, {}), ('BP', 2, {1: 2}), ('PB', 2, {2: 1})]
        else:
            # sized to the thorough CPU budget (64 jobs x 300 s): J = 1 with 4 parts, J = 2 with 3 parts (one zero at most),
            # J = 3 with 2 parts (all times non-zero or sink instant)
            shapes = [(k, 4, {1: cap}) for k in 'HPB' for cap in ([1, 2, None] if k == 'B' else [1])]
            shapes += [(''.join(ks), 3, {i + 1: cap for i, kk in enumerate(ks) if kk == 'B'})
                       for ks in [('H', 'P'), ('P', 'B'), ('B', 'P'), ('B', 'B'), ('P', 'P')] for cap in ([1, 2] if 'B' in ks else [1])]
            shapes += [('HPB', 2, {3: 1}), ('PBP', 2, {2: 1})]
        S.append(mk_sub('F1-H-n2-all-zero-horizon-0', dict(serial('H', 2), horizon=0), mons, zero=['c0', 'c1', 'cs']))
        shapes = shapes + [('P', 0, {})]
        for kinds, n, caps in shapes:
            spec = serial(kinds, n, caps=caps)
            names = L.params_of(spec)
            zps = [()] + [(x,) for x in names] if q else list(L.zero_patterns(names, max_zero=1 if len(kinds) <= 2 else 0)) + \
                ([('cs',)] if len(kinds) == 3 else [])
            if q and len(kinds) == 2:
                zps = [(), ('cs',), ('c0',)]
            for zp in zps:
                capname = ''.join(str(caps.get(i + 1) or 'inf') for i, kk in enumerate(kinds) if kk == 'B')
                S.append(mk_sub(f'F1-{kinds}{capname}-n{n}-zero[{",".join(zp)}]', spec, mons, zero=list(zp)))
    elif prop == 'C11':
        mons = ['resource']
        S.append(mk_sub('F5-two-procs-one-pool', resources2(2), mons, zero=['cs', 'c0']))
        S.append(mk_sub('F5-two-procs-one-pool-n3', resources2(3), mons, zero=['cs', 'c0']))
        S.append(mk_sub('F5-pool-lowered-and-raised', with_ops(resources2(2), [
            {'k': 'addres', 'res': 'r', 'amount': -1, 't': 't0'}, {'k': 'addres', 'res': 'r', 'amount': 1, 't': 't1'}]), mons,
            zero=['cs', 'c0'], pre=['t0 <= t1']))
        S.append(mk_sub('F5-capacity-dropped-below-two-holders', with_ops(resources2(3, cap=2), [
            {'k': 'addres', 'res': 'r', 'amount': -2, 't': 't0'}, {'k': 'addres', 'res': 'r', 'amount': 2, 't': 't1'}]), mons,
            zero=['cs', 'c0'], pre=['t0 < c1', 't0 < c2', 't0 < t1']))
        S.append(mk_sub('F5-fail-while-holding', with_ops(serial('P', 2, res={'r': 1}) | {'pools': {'r': 1}}, [
            {'k': 'fail', 'dev': 'p1', 't': 't0'}, {'k': 'restore', 'dev': 'p1', 't': 't1'}]), mons, zero=['cs'], pre=['t0 <= t1']))
        S.append(mk_sub('F5-maintenance-while-holding', with_ops(serial('P', 2, res={'r': 1}) | {'pools': {'r': 1}}, [
            {'k': 'shutdown', 'dev': 'p1', 't': 't0'}, {'k': 'restore', 'dev': 'p1', 't': 't1'}]), mons, zero=['cs'], pre=['t0 <= t1']))
        S.append(mk_sub('F5-fail-while-down-holding', with_ops(serial('P', 2, res={'r': 1}) | {'pools': {'r': 1}}, [
            {'k': 'shutdown', 'dev': 'p1', 't': 't0'}, {'k': 'armfail', 'dev': 'p1', 't': 't0', 'delay': 'd1'},
            {'k': 'restore', 'dev': 'p1', 't': 't2'}]), mons, zero=['cs', 'c0'] if q else ['cs'], pre=['t0 + d1 <= t2']))
        wo = with_ops(serial('P', 1, res={'r': 1}) | {'pools': {'r': 1}}, [{'k': 'workorder', 'dev': 'p1', 't': 't0', 'tag': 'm'}],
                      maint=True, durs={'m': 'w0'})
        S.append(mk_sub('F5-work-order-starts-when-the-holder-finishes', wo, mons, zero=['cs'], pre=['t0 == c0 + c1']))
        woh = copy.deepcopy(wo)
        woh['ops'][0]['prio'] = 'high'      # requested before the events of that instant: START_WORK competes with the release
        S.append(mk_sub('F5-work-order-requested-early-at-the-finish-instant', woh, mons, zero=['cs'], pre=['t0 == c0 + c1']))
        S.append(mk_sub('F5-work-order-while-holding', wo, mons, zero=['cs', 'c0']))
        S.append(mk_sub('F5-blocked-processor-offered-a-part', with_ops(resources2(2), [
            {'k': 'block', 'dev': 'p1', 't': 0, 'prio': 'high'}, {'k': 'unblock', 'dev': 'p1', 't': 't0'}]), mons, zero=['cs', 'c0']))
        S.append(mk_sub('F5-waiting-processor-blocked-then-pool-freed', with_ops(two_lines_shared_tool(1, 1), [
            {'k': 'hold', 'res': 'tool', 'amount': 1, 't': 0, 'prio': 'high'}, {'k': 'block', 'dev': 'p1', 't': 't0'},
            {'k': 'unhold', 'res': 'tool', 't': 't1'}, {'k': 'unblock', 'dev': 'p1', 't': 't2'}]), mons, zero=['c3'],
            pre=['t0 < t1', 't1 < t2']))
        S.append(mk_sub('F5-external-holder', with_ops(serial('P', 2, res={'r': 1}) | {'pools': {'r': 1}}, [
            {'k': 'hold', 'res': 'r', 'amount': 1, 't': 0, 'prio': 'high'}, {'k': 'unhold', 'res': 'r', 't': 't0'}]), mons, zero=['cs']))
        # the finished part waits for a slow consumer: the holder is idle (nothing in process) and must have let go
        S.append(mk_sub('F5-finished-part-waits-for-a-slow-consumer', serial('PH', 3, res={'r': 1}) | {'pools': {'r': 1}}, mons,
                        zero=['cs', 'c0'], pre=['c1 < c2']))
        S.append(mk_sub('F5-two-resources', serial('P', 2, res={'r': 1, 's': 'a1'}) | {'pools': {'r': 1, 's': 'k1'}}, mons, zero=['cs'],
                        ranges={'a1': (0, L.T), 'k1': (0, L.T)}))
    elif prop == 'C15':
        mons = ['data']
        S.append(mk_sub('F1-PB-n2-trace', dict(serial('PB', 2, caps={2: 2}), trace=True), mons, zero=['cs']))
        S.append(mk_sub('F1-B-n3', serial('B', 3, caps={1: 2}), mons, zero=['c0']))
        # the same system is simulated twice with the trace on: the export after the second run lists the events of both
        S.append(mk_sub('F1-P-n2-two-traced-runs', dict(serial('P', 2), trace=True, horizons=['h0', 'h1']), mons, zero=['cs', 'c0'],
                        ranges={'h0': (0, 3 * L.T), 'h1': (0, 3 * L.T)}))
        S.append(mk_sub('F5-resources', resources2(2), mons, zero=['cs', 'c0']))
        S.append(mk_sub('F6-fail-restore-trace', dict(_faults_basic(2, [
            {'k': 'fail', 'dev': 'p1', 't': 't0'}, {'k': 'restore', 'dev': 'p1', 't': 't1'}]), trace=True), mons, zero=['cs'], pre=['t0 <= t1']))
        S.append(mk_sub('F6-workorder', with_ops(serial('P', 1), [
            {'k': 'workorder', 'dev': 'p1', 't': 't0', 'tag': 'm'}, {'k': 'workorder', 'dev': 'p1', 't': 't0', 'tag': 'm'}],
            maint=True, durs={'m': 'w0'}), mons, zero=['cs']))
        S.append(mk_sub('F6-fail-while-down', _faults_basic(1, [
            {'k': 'shutdown', 'dev': 'p1', 't': 't0'}, {'k': 'armfail', 'dev': 'p1', 't': 't0', 'delay': 'd1'},
            {'k': 'restore', 'dev': 'p1', 't': 't2'}]), mons, zero=['cs', 'c0'], pre=['t0 + d1 <= t2']))
        sch = {'devices': [{'k': 'scheduler', 'name': 'sch', 'durs': ['d0', 'd1', 'd2'], 'states': ['off', 'on', 'off'], 'cyclical': True}],
               'horizons': ['H']}
        S.append(mk_sub('scheduler-off-on-off-cyclical', sch, mons, pre=['H < 2 * (d0 + d1 + d2)'], ranges={'H': (0, 6 * L.T)}))
        S.append(mk_sub('F7-batch-backlog-in-buffer', batch_backlog_in_buffer(6, (2, 2, 2)), mons, zero=['cs', 'c0']))
        S.append(mk_sub('F5-two-resource-kinds-released-together', serial('P', 2, res={'r': 1, 's': 2}) | {'pools': {'r': 1, 's': 3}}, mons,
                        zero=['cs', 'c0']))
        S.append(mk_sub('F5-pool-created-at-run-time', with_ops(resources2(1), [
            {'k': 'addres', 'res': 'q', 'amount': 'a0', 't': 't0'}]), mons, zero=['cs', 'c0'], ranges={'a0': (1, L.T)}))
        S.append(mk_sub('F5-capacity-change', with_ops(resources2(1), [
            {'k': 'addres', 'res': 'r', 'amount': 'a0', 't': 't0'}]), mons, zero=['cs', 'c0'], ranges={'a0': (-1, L.T)}))
    elif prop == 'C16':
        mons = ['value']
        sp = serial('P', 2)
        sp['devices'][0]['value'] = 'v0'
        sp['devices'][1]['addvalue'] = 'a1'
        S.append(mk_sub('F1-P-n2-values', sp, mons, zero=['cs'], ranges={'v0': (-L.T, L.T), 'a1': (-L.T, L.T)}))
        spz = serial('P', 2)
        spz['devices'][0]['value'] = 'v0'
        spz['devices'][1]['addvalue'] = 'a1'
        # zero cycle time: the part is processed (and revalued) inside the source's own hand-over call
        S.append(mk_sub('F1-P-n2-values-zero-cycle', spz, mons, zero=['cs', 'c1'], ranges={'v0': (-L.T, L.T), 'a1': (1, L.T)}))
        spw = serial('P', 2)
        spw['devices'][0]['value'] = 'v0'
        spw['devices'][1]['addvalue'] = 'a1'
        spw['devices'][2]['recv_addvalue'] = 'a2'
        S.append(mk_sub('F1-P-n2-sink-callback-writes-down', spw, mons, zero=['cs', 'c0'], ranges={'v0': (0, L.T), 'a1': (0, L.T), 'a2': (-L.T, -1)}))
        spb = {'devices': [{'k': 'source', 'name': 'src', 'cycle': 'c0', 'parts': 2, 'batches': [[2, 1], 2], 'value': 'v0'},
                           {'k': 'handler', 'name': 'h1', 'up': ['src'], 'cycle': 'c1'},
                           {'k': 'sink', 'name': 'snk', 'up': ['h1'], 'cycle': 0}]}
        S.append(mk_sub('F7-batches-nested-values', spb, mons, ranges={'v0': (-L.T, L.T)}))
        sp2 = serial('PP', 2)
        sp2['devices'][0]['value'] = 'v0'
        sp2['devices'][1]['addvalue'] = 'a1'
        sp2['devices'][2]['addvalue'] = 'a2'
        S.append(mk_sub('F1-PP-n2-values', sp2, mons, zero=['cs', 'c0'], ranges={'v0': (0, L.T), 'a1': (-L.T, L.T), 'a2': (-L.T, L.T)}))
        sp3 = with_ops(serial('P', 2), [{'k': 'fail', 'dev': 'p1', 't': 't0'}, {'k': 'restore', 'dev': 'p1', 't': 't1'}])
        sp3['devices'][0]['value'] = 'v0'
        sp3['devices'][1]['addvalue'] = 'a1'
        S.append(mk_sub('F6-fail-values', sp3, mons, zero=['cs'], pre=['t0 <= t1'], ranges={'v0': (1, L.T), 'a1': (1, L.T)}))
        sp4 = with_ops(serial('P', 1), [{'k': 'workorder', 'dev': 'p1', 't': 't0', 'tag': 'm'}], maint=True, durs={'m': 'w0'})
        sp4['devices'][1]['costs'] = {'m': 'k0'}
        sp4['devices'][0]['value'] = 'v0'
        S.append(mk_sub('F6-workorder-cost', sp4, mons, zero=['cs'], ranges={'k0': (0, L.T), 'v0': (0, L.T)}))
        # every kind of asset that takes a starting value gets one: value == the value given + its history
        allv = {'horizon': 'h0', 'devices': [
            {'k': 'source', 'name': 'src', 'cycle': 0, 'parts': 1, 'value': 'v0'},
            {'k': 'handler', 'name': 'h1', 'up': ['src'], 'cycle': 0, 'value0': 'w1'},
            {'k': 'junction', 'name': 'j1', 'up': ['h1'], 'value0': 'w2'},
            {'k': 'proc', 'name': 'p1', 'up': ['j1'], 'cycle': 1, 'value0': 'w1', 'addvalue': 1},
            {'k': 'buffer', 'name': 'buf', 'up': ['p1'], 'delay': 0, 'cap': 2, 'value0': 'w2'},
            {'k': 'batcher', 'name': 'bat', 'up': ['buf'], 'size': 1, 'value0': 'w1'},
            {'k': 'sink', 'name': 'snk', 'up': ['bat'], 'cycle': 0},
            {'k': 'maintainer', 'name': 'mt', 'capacity': 1, 'value0': 'w2'},
            {'k': 'cms', 'name': 'cms', 'value0': 'w1'},
            {'k': 'sensor', 'name': 's0', 'target': 'p1', 'value0': 'w2'},
            {'k': 'psensor', 'name': 's1', 'target': 'p1', 'interval': 'iv', 'value0': 'w1'},
            {'k': 'osensor', 'name': 's2', 'target': 'p1', 'value0': 'w2'}]}
        S.append(mk_sub('F9-starting-values-of-every-asset-kind', allv, mons, ranges={'v0': (0, L.T), 'w1': (1, L.T), 'w2': (-L.T, -1), 'iv': (1, L.T)},
                        pre=['h0 < 2 * iv']))
    elif prop == 'C08':
        mons = ['routing']
        fan = {'devices': [{'k': 'source', 'name': 'src', 'cycle': 'c0', 'parts': 3},
                           {'k': 'proc', 'name': 'p1', 'up': ['src'], 'cycle': 'c1'}, {'k': 'proc', 'name': 'p2', 'up': ['src'], 'cycle': 'c2'},
                           {'k': 'sink', 'name': 'snk', 'up': ['p1', 'p2'], 'cycle': 'cs'}], 'idle_longest': ['p1', 'p2']}
        S.append(mk_sub('F2-fanout-n3', fan, mons, zero=['cs']))
        gates = {'devices': [{'k': 'source', 'name': 'src', 'cycle': 'c0', 'parts': 3},
                             {'k': 'gate', 'name': 'ge', 'up': ['src'], 'pred': 'even'}, {'k': 'gate', 'name': 'go', 'up': ['src'], 'pred': 'odd'},
                             {'k': 'proc', 'name': 'p1', 'up': ['ge'], 'cycle': 'c1'}, {'k': 'proc', 'name': 'p2', 'up': ['go'], 'cycle': 'c2'},
                             {'k': 'sink', 'name': 'snk', 'up': ['p1', 'p2'], 'cycle': 'cs'}]}
        S.append(mk_sub('F3-gates-n3', gates, mons, zero=['cs']))
        reent = {'groups': [{'name': 'g', 'devices': ['m1']}],
                 'devices': [{'k': 'source', 'name': 'src', 'cycle': 'c0', 'parts': 2},
                             {'k': 'proc', 'name': 'm1', 'up': [], 'cycle': 'c1'},
                             {'k': 'path', 'name': 'gp1', 'group': 'g', 'up': ['src']},
                             {'k': 'handler', 'name': 'm2', 'up': ['gp1'], 'cycle': 'c2'},
                             {'k': 'path', 'name': 'gp2', 'group': 'g', 'up': ['m2']},
                             {'k': 'sink', 'name': 'snk', 'up': ['gp2'], 'cycle': 'cs'}]}
        S.append(mk_sub('F4-reentrant-n2', reent, mons, zero=['cs']))
        two = {'groups': [{'name': 'g', 'devices': ['m1', 'm2']}],
               'devices': [{'k': 'source', 'name': 'srcA', 'cycle': 'c0', 'parts': 1}, {'k': 'source', 'name': 'srcB', 'cycle': 'c3', 'parts': 1},
                           {'k': 'proc', 'name': 'm1', 'up': [], 'cycle': 'c1'}, {'k': 'handler', 'name': 'm2', 'up': ['m1'], 'cycle': 'c2'},
                           {'k': 'path', 'name': 'gpA', 'group': 'g', 'up': ['srcA']}, {'k': 'path', 'name': 'gpB', 'group': 'g', 'up': ['srcB']},
                           {'k': 'sink', 'name': 'snkA', 'up': ['gpA'], 'cycle': 0}, {'k': 'sink', 'name': 'snkB', 'up': ['gpB'], 'cycle': 0}]}
        S.append(mk_sub('F4-two-paths-shared-group', two, mons, zero=['c0']))
        nested = {'groups': [{'name': 'gin', 'devices': ['m1']}, {'name': 'gout', 'devices': ['ip']}],
                  'devices': [{'k': 'source', 'name': 'src', 'cycle': 'c0', 'parts': 2},
                              {'k': 'proc', 'name': 'm1', 'up': [], 'cycle': 'c1'},
                              {'k': 'path', 'name': 'ip', 'group': 'gin', 'up': []},
                              {'k': 'path', 'name': 'op', 'group': 'gout', 'up': ['src']},
                              {'k': 'sink', 'name': 'snk', 'up': ['op'], 'cycle': 'cs'}]}
        S.append(mk_sub('F4-nested-n2', nested, mons))
        nested2 = {'groups': [{'name': 'gin', 'devices': ['m1']}, {'name': 'gout', 'devices': ['ip', 'x']}],
                   'devices': [{'k': 'source', 'name': 'src', 'cycle': 'c0', 'parts': 2},
                               {'k': 'proc', 'name': 'm1', 'up': [], 'cycle': 'c1'},
                               {'k': 'path', 'name': 'ip', 'group': 'gin', 'up': []},
                               {'k': 'handler', 'name': 'x', 'up': ['ip'], 'cycle': 'c2'},
                               {'k': 'path', 'name': 'op', 'group': 'gout', 'up': ['src']},
                               {'k': 'sink', 'name': 'snk', 'up': ['op'], 'cycle': 0}]}
        S.append(mk_sub('F4-nested-inner-path-first-of-two', nested2, mons, zero=['c0']))
        S.append(mk_sub('F7-batches-through-gate-refused', batches_through_gate(2), mons, zero=['cs', 'c0']))
        S.append(mk_sub('F3-rework-loop-through-value-gates', REWORK, mons))
        S.append(mk_sub('F4-rework-loop-re-entering-a-group', REWORK_GROUP, mons, zero=['c0']))
        S.append(mk_sub('F4-fanout-behind-group-path', GROUP_FANOUT, mons, zero=['cs', 'c0']))
        gf = copy.deepcopy(GROUP_FANOUT)
        gf['devices'][0]['parts'] = 3
        gf['devices'][3]['cycle'] = 'c3'      # the first-connected machine behind the path is the slower one
        S.append(mk_sub('F4-fanout-behind-group-path-unequal-machines', gf, mons, zero=['cs', 'c0'], pre=['c2 < c3']))
        fanb = {'devices': [{'k': 'source', 'name': 'src', 'cycle': 'c0', 'parts': 2},
                            {'k': 'proc', 'name': 'p1', 'up': ['src'], 'cycle': 'c1'}, {'k': 'proc', 'name': 'p2', 'up': ['src'], 'cycle': 'c1'},
                            {'k': 'sink', 'name': 'snk', 'up': ['p1', 'p2'], 'cycle': 0}], 'idle_longest': ['p1', 'p2'],
                'ops': [{'k': 'block', 'dev': 'p1', 't': 0, 'prio': 'high'}, {'k': 'unblock', 'dev': 'p1', 't': 't1'}]}
        S.append(mk_sub('F2-fanout-sibling-blocked-then-unblocked', fanb, mons, pre=['c0 + c1 < t1', 't1 < 2 * c0']))
        # a buffer releases two parts in one sweep to junctions in front of parallel machines: the ranking of the
        # junctions changes with the first hand-over
        junc = {'devices': [{'k': 'source', 'name': 'src', 'cycle': 0, 'parts': 2}, {'k': 'source', 'name': 'src2', 'cycle': 0, 'parts': 1},
                            {'k': 'buffer', 'name': 'buf', 'up': ['src'], 'delay': 'd1', 'cap': 5},
                            {'k': 'gate', 'name': 'j1', 'up': ['buf'], 'pred': 'all'}, {'k': 'gate', 'name': 'j2', 'up': ['buf'], 'pred': 'all'},
                            {'k': 'proc', 'name': 'a1', 'up': ['j1', 'src2'], 'cycle': 'c1'}, {'k': 'proc', 'name': 'a2', 'up': ['j1'], 'cycle': 'c2'},
                            {'k': 'proc', 'name': 'b1', 'up': ['j2'], 'cycle': 'c2'},
                            {'k': 'sink', 'name': 'snk', 'up': ['a1', 'a2', 'b1'], 'cycle': 0}], 'idle_longest': ['a1', 'a2', 'b1']}
        S.append(mk_sub('F2-buffer-sweep-over-junctions', junc, mons, pre=['1 <= c1', 'c1 < d1']))
        S.append(mk_sub('F8-block-path', with_ops(reent, [{'k': 'block', 'dev': 'gp2', 't': 't0'}, {'k': 'unblock', 'dev': 'gp2', 't': 't1'}]),
                        mons, zero=['cs', 'c0'], pre=['t0 <= t1']))
        S.append(mk_sub('F8-block-gate', with_ops(gates, [{'k': 'block', 'dev': 'ge', 't': 't0'}, {'k': 'unblock', 'dev': 'ge', 't': 't1'}]),
                        mons, zero=['cs', 'c0'], pre=['t0 <= t1']))
    elif prop == 'C17':
        mons = ['batch', 'buffer', 'census']
        for size in ([None, 1, 2] if q else [None, 1, 2, 3]):
            for batches in ([[None, 'b1', None], ['b0', 'b1']] if q else [[None, 'b1', None], ['b0', 'b1'], ['b0', None, 'b2'], [None, None, None]]):
                spec = {'devices': [{'k': 'source', 'name': 'src', 'cycle': 'c0', 'parts': len(batches), 'batches': batches},
                                    {'k': 'batcher', 'name': 'bat', 'up': ['src'], 'size': size},
                                    {'k': 'buffer', 'name': 'buf', 'up': ['bat'], 'delay': 0, 'cap': 10},
                                    {'k': 'sink', 'name': 'snk', 'up': ['buf'], 'cycle': 'cs'}]}
                nm = ''.join('1' if b is None else 'B' for b in batches)
                S.append(mk_sub(f'F7-size{size}-in{nm}', spec, mons, ranges={'b0': (0, 3), 'b1': (0, 3), 'b2': (0, 3)},
                                zero=['c0', 'cs'] if (q and size is None) else ['c0']))
        S.append(mk_sub('F7-batches-through-gate-refused', batches_through_gate(2), ['batch', 'routing'], zero=['cs', 'c0']))
        S.append(mk_sub('F7-empty-batch-while-unpacking', batches_into_batcher((3, 0, 2), 2), mons[:1] + ['census'], zero=['cs', 'c0']))
        S.append(mk_sub('F7-batches-of-2-into-batcher-3', batches_into_batcher((2, 2, 2), 3), mons[:1] + ['census'], zero=['cs', 'c0']))
        S.append(mk_sub('F7-empty-batch-while-unpacking-single', batches_into_batcher((3, 0, 2), None), mons[:1] + ['census'], zero=['cs', 'c0']))
        S.append(mk_sub('F7-buffer-into-batcher-size2', buffer_into_batcher(2), mons, zero=['c0', 'd1'],
                        ranges={'b0': (0, 3), 'b1': (0, 3)}))
        spec = {'devices': [{'k': 'source', 'name': 'src', 'cycle': 0, 'parts': 2, 'batches': ['b0', 'b1']},
                            {'k': 'batcher', 'name': 'bat', 'up': ['src'], 'size': 2},
                            {'k': 'handler', 'name': 'h', 'up': ['bat'], 'cycle': 'c1'},
                            {'k': 'sink', 'name': 'snk', 'up': ['h'], 'cycle': 0}],
                'ops': [{'k': 'block', 'dev': 'h', 't': 0, 'prio': 'high'}, {'k': 'unblock', 'dev': 'h', 't': 't0'}]}
        S.append(mk_sub('F7-size2-blocked-downstream', spec, ['batch', 'census'], ranges={'b0': (0, 3), 'b1': (0, 3)}))
        # batches travelling through a group (and refused once behind it): the parts inside visit what the batch visits
        spec = {'groups': [{'name': 'g', 'devices': ['m1']}],
                'devices': [{'k': 'source', 'name': 'src', 'cycle': 'c0', 'parts': 2, 'batches': [2, 2]},
                            {'k': 'handler', 'name': 'm1', 'up': [], 'cycle': 'c1'},
                            {'k': 'path', 'name': 'gp', 'group': 'g', 'up': ['src']},
                            {'k': 'proc', 'name': 'p1', 'up': ['gp'], 'cycle': 'c2'},
                            {'k': 'sink', 'name': 'snk', 'up': ['p1'], 'cycle': 0}]}
        S.append(mk_sub('F7-batches-through-a-group', spec, ['routing', 'census'], zero=['c0']))
    return S


SPLITS = {   # heavy analyses are case-split by the order pattern of these expression pairs
    'F6-shutdown-restore-n2': [('t0', 'c0'), ('t0', 'c0 + c1'), ('t1', 'c0 + c1')],
    'F8-block-unblock-n2': [('t0', 'c0'), ('t1', 'c0 + c1'), ('t1', '2 * c0')],
    'F6-shutdown-restore-shutdown-restore': [('t0', 'c0'), ('t1', 'c0 + c1'), ('t2', 'c0 + c1')],
    'F6-double-shutdown-double-restore': [('t0', 'c0'), ('t2', 'c0 + c1'), ('t3', 'c0 + c1')],
    'F6-workorder': [('t0', 'c0'), ('t0', 'c0 + c1'), ('t0 + w0', 'c0 + c1')],
    'F6-fail-restore-n2': [('t0', 'c0'), ('t0', 'c0 + c1')],
    'F2-fanout-n3': [('c1', 'c2'), ('c0', 'c1'), ('c0', 'c2')],
    'F4-two-paths-shared-group': [('c3', 'c1'), ('c3', 'c1 + c2')],
    'F8-block-gate': [('t0', 'c1'), ('t1', 'c1'), ('c1', 'c2')],
    'F8-block-path': [('t0', 'c1'), ('t1', 'c1'), ('t1', 'c1 + c2')],
    'F5-fail-while-holding': [('t0', 'c0'), ('t0', 'c0 + c1')],
    'F5-maintenance-while-holding': [('t0', 'c0'), ('t0', 'c0 + c1'), ('t1', 'c0 + c1')],
    'F6-fail-restore-trace': [('t0', 'c0'), ('t0', 'c0 + c1')],
    'F6-fail-values': [('t0', 'c0'), ('t0', 'c0 + c1')],
    'F1-P-n2-values': [('a1', '0'), ('v0', '0')],
    'F1-PP-n2-values': [('a1', '0'), ('a2', '0')],
    'F6-shutdown-fail-restore': [('t0', 'c0'), ('t0 + d1', 'c0 + c1')],
    'F6-shutdown-armfail-restore': [('t0', 'c0'), ('t0 + d1', 'c0 + c1')],
    'F5-fail-while-down-holding': [('t0', 'c0'), ('t0 + d1', 'c0 + c1')],
    'F2-fan-in-two-producers-same-instant': [('c0', 'c1'), ('2 * c0', 'c1')],
    'F3-gates-n3': [('c1', 'c2'), ('c0', 'c1')],
}


FIFO = ('F7-sizeNone-', 'F7-buffer-into-batcher-sizeNone', 'F7-size1-inBB', 'F7-size1-in1B1')


LINE_PROPS = ['C02', 'C03', 'C05', 'C06', 'C08', 'C11', 'C13', 'C15', 'C16', 'C17']   # C04 needs pure serial lines
OWN_MONITORS = {'C02': ['census'], 'C03': ['wakeup'], 'C05': ['buffer'], 'C06': ['cycle'], 'C08': ['routing'], 'C11': ['resource'],
                'C13': ['uptime'], 'C15': ['data'], 'C16': ['value'], 'C17': ['batch']}


def _applicable(prop, spec):
    kinds = {d['k'] for d in spec['devices']}
    if kinds & {'junction', 'psensor', 'osensor', 'sensor', 'cms'}:
        return False          # asset kinds only the value monitor knows
    if prop == 'C05':
        return 'buffer' in kinds
    if prop == 'C11':
        return any(d.get('res') for d in spec['devices'])
    if prop == 'C13':
        return 'proc' in kinds
    if prop == 'C17':
        return 'batcher' in kinds
    if prop == 'C08':
        return True
    return 'source' in kinds


QUICK_CROSS_MAX_CPU = 40.0     # CPU-seconds of an analysis (as measured with its owner's monitors, harness/costs.json)


def _costs():
    import json
    import os
    try:
        return json.load(open(os.path.join(os.path.dirname(os.path.abspath(__file__)), 'costs.json')))
    except (OSError, ValueError):
        return {}


def _cross_pool(prop, tier='thorough'):
    """The quick models of every *other* device-level property, run with this property's monitors.  Thorough tier: all of
    them.  Quick tier: those whose measured cost (tools/costs.py, from the owner's last quick run) is at most
    QUICK_CROSS_MAX_CPU; a model without a measured cost is left to the thorough tier."""
    import json
    out, seen = [], set()
    costs = _costs() if tier == 'quick' else None
    for s in (_subs('thorough', prop) if tier == 'thorough' else []) + _subs('quick', prop):
        seen.add(json.dumps(s['shape']['spec'], sort_keys=True))
    for other in LINE_PROPS:
        if other == prop:
            continue
        for s in _subs('quick', other):
            spec = s['shape']['spec']
            key = json.dumps(spec, sort_keys=True)
            if key in seen or not _applicable(prop, spec):
                continue
            if costs is not None:
                c = costs.get(other, {}).get('base', {}).get(s['name'])
                if c is None or c > QUICK_CROSS_MAX_CPU:
                    continue
            seen.add(key)
            t = dict(s, name=f'x{other}:' + s['name'], shape=dict(s['shape'], monitors=OWN_MONITORS[prop]))
            out.append(t)
    return out


def jobs(tier, prop):
    subs = []
    own = _subs(tier, prop)
    if prop in LINE_PROPS:
        own = own + _cross_pool(prop, tier)
    for s in own:
        if tier == 'quick' and s['name'].split(':', 1)[-1].startswith(FIFO):
            # un-batching into single parts at one instant: dozens of equal-time events; the tie-break order is fixed
            # (first created first) in these analyses so that the batch sizes can be explored exhaustively
            s = dict(s, name=s['name'] + '-fifo', weights='fifo')
        base = s['name'].split(':', 1)[-1] if s['name'].startswith('x') else s['name']
        if base in SPLITS:
            subs += split_by_order(s, SPLITS[base])
        elif prop == 'C04' and s['name'].endswith('zero[]'):
            # all times non-zero: split by the order pattern of neighbouring station times
            names = [p[0] for p in s['params']]
            subs += split_by_order(s, list(zip(names, names[1:]))[:3])
        else:
            subs.append(s)
    costs = _costs()

    def weight(s):
        # measured CPU-seconds of the analysis where known (balances the worker processes); 10 otherwise
        nm, owner = s['name'], prop
        if nm.startswith('x') and ':' in nm[:5]:
            owner, nm = nm[1:].split(':', 1)
        c = costs.get(owner, {})
        if nm in c.get('exact', {}):
            return max(0.5, c['exact'][nm])
        b = nm.split('#')[0]
        if b in c.get('base', {}):
            return max(0.5, c['base'][b] / (9 if '#' in nm else 1))
        return 10.0
    return pack(subs, (64 if prop == 'C04' else 48) if tier == 'quick' else 64, weight, f'{prop.lower()}-l', weights='distinct',
                timeout=240 if tier == 'quick' else 300)


def bounds_text(tier, prop):
    if prop == 'C01':
        return ('device tier (dispatch-order and run-contract monitor on real multi-device models): ' +
                '; '.join(s['name'] for s in _subs(tier, prop)))
    extra = ''
    if prop in LINE_PROPS:
        extra = (f' + {len(_cross_pool(prop, tier))} models of the other device-level properties (prefixed x<id>:) run with this property\'s '
                 'monitors' + (f' (quick tier: those measured at <= {QUICK_CROSS_MAX_CPU:.0f} CPU-s)' if tier == 'quick' else ''))
    return ('models: ' + '; '.join(s['name'] for s in _subs(tier, prop)) + extra + ' -- serial lines Source -> stations -> Sink with the '
            'listed station kinds (H handler, P processor, B buffer), n = source part budget, fault/blocking operations at '
            'symbolic instants; all cycle times, delays and instants symbolic ints in [1, 10**6] unless named zero; every '
            'tie-break order (symbolic pairwise distinct weights) except in analyses whose name ends in -fifo')


REQUIRED = {
    'C02': ['part_delivered', 'part_lost_to_failure'],
    'C03': ['blocked_part_genuinely_blocked'],
    'C05': ['buffer_released_part', 'buffer_full', 'buffer_two_waiting', 'buffer_released_exactly_at_delay', 'two_arrivals_same_instant'],
    'C06': ['part_finished_on_time', 'processing_interrupted_by_maintenance', 'processing_resumed', 'failure_ended_processing',
            'offset_floored_at_zero', 'offset_set_from_finish_callback'],
    'C01': [],
    'C04': ['recurrence_matched', 'blocked_by_downstream'],
    'C11': ['processing_with_resources', 'resources_kept_through_maintenance', 'released_on_failure', 'idle_processor_released'],
    'C15': ['level_recorded', 'failure_recorded', 'produced_recorded', 'supplied_recorded', 'resource_recorded', 'work_order_recorded',
            'trace_checked', 'schedule_recorded', 'schedule_change_to_equal_state_recorded'],
    'C16': ['value_added_by_processing', 'valuable_part_received', 'work_order_cost_charged', 'batch_valued'],
    'C08': ['idle_longest_decided', 'passed_gate', 'entered_group', 'left_group_through_entry_path'],
    'C17': ['full_batch_emitted', 'batch_unpacked', 'partial_batch_waiting', 'history_reached_contained_part', 'empty_batch_input'],
    'C13': ['failure_occurred', 'failure_lost_a_part', 'failure_while_down_with_part', 'repeated_shutdown', 'repeated_restore',
            'restored', 'utilization_accumulated', 'work_order_finished', 'work_order_in_progress', 'postponed_failure_struck'],
}


def required_goals(tier, prop):
    if prop == 'C01':
        return ['device_event_dispatched', 'run_ended_with_events_pending'] + (['device_events_tied'] if tier == 'thorough' else [])
    return REQUIRED.get(prop, [])


def signature(failure):
    return failure['label']


def run(shape, args, ctx):
    return L.run(shape, args, ctx)
