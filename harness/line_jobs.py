"""Job lists of the device-level properties (C02-C06, C08, C11, C13-C17) over the scenario
families of DESIGN.md section 5.  Every analysis = one concrete model shape with symbolic
times; this module only *lists* them, harness/lines.py builds and monitors them."""
from harness import lines as L
from harness.lines import mk_sub, serial, with_ops
from harness.util import pack, split_by_order

ENCODED_COMMON = [
    'System.__init__/simulate/_initialize_assets', 'Environment.run/step/schedule_event/pause_/unpause_/cancel_matching_events',
    'Asset.__init__/initialize', 'PartFlowController.give_part/_give_part_helper/_can_accept_part/space_available_downstream/'
    'notify_upstream_of_available_space/get_sorted_downstream_list/set_upstream/block_input',
    'PartHandler.give_part/_accept_part/_on_received_new_part/_try_move_part_to_output/_schedule_finish_cycle/_finish_cycle/'
    '_schedule_pass_part_downstream/_pass_part_downstream/_set_waiting_for_part',
    'PartProcessor._can_accept_part/_try_move_part_to_output/_finish_cycle/_fail/_shutdown/shutdown/restore_functionality/'
    'schedule_failure/uptime/utilization_time/start_work/end_work/_release_resources_if_idle/_reserve_resource_callback',
    'Source.initialize/_finish_cycle/_pass_part_downstream/adjust_part_count', 'Sink._on_received_new_part/_finish_cycle',
    'Buffer._can_accept_part/_on_received_new_part/_try_move_part_to_output/_pass_part_downstream/_remaining_wait_time/level',
    'Part/PartGenerator/Batch', 'ResourceManager.*', 'Maintainer.*']
ENCODED = ENCODED_COMMON
ASSUMPTIONS = [
    'A1 finite part budgets; A2 gate predicates depend on the part only; A3 external operations (shutdown, restore, block, '
    'capacity and budget changes, work-order requests) are issued from their own events',
    'times are ints in [0, 10**6] (a parameter in the zero pattern is the constant 0, every other one is >= 1); results '
    'transfer to exactly representable float grids, IEEE rounding is outside',
]


def resources2(nparts, cap=1):
    """F5: Source -> {P1(res r:1), P2(res r:1)} -> Sink, pool r of the given capacity."""
    return {'pools': {'r': cap} if cap else {}, 'devices': [
        {'k': 'source', 'name': 'src', 'cycle': 'c0', 'parts': nparts},
        {'k': 'proc', 'name': 'p1', 'up': ['src'], 'cycle': 'c1', 'res': {'r': 1}},
        {'k': 'proc', 'name': 'p2', 'up': ['src'], 'cycle': 'c2', 'res': {'r': 1}},
        {'k': 'sink', 'name': 'snk', 'up': ['p1', 'p2'], 'cycle': 'cs'}]}


def _faults_basic(nparts, ops, **kw):
    return with_ops(serial('P', nparts), ops, **kw)


def _subs(tier, prop):
    q = tier == 'quick'
    S = []
    if prop == 'C02':
        mons = ['census']
        for kinds in (['H', 'P', 'B'] if q else ['H', 'P', 'B', 'HP', 'PB', 'BP', 'HB', 'PP', 'BB']):
            S.append(mk_sub(f'F1-{kinds}-n2', serial(kinds, 2, caps={1: 1, 2: 1}), mons))
        S.append(mk_sub('F1-P-n2-zero-cs', serial('P', 2), mons, zero=['cs']))
        S.append(mk_sub('F1-B-n3-cap2', serial('B', 3, caps={1: 2}), mons, zero=['cs'] if q else []))
        S.append(mk_sub('F6-shutdown-fail-restore', _faults_basic(1, [
            {'k': 'shutdown', 'dev': 'p1', 't': 't0'}, {'k': 'armfail', 'dev': 'p1', 't': 't0', 'delay': 'd1'},
            {'k': 'restore', 'dev': 'p1', 't': 't2'}]), mons, zero=['cs'], pre=['t0 + d1 <= t2']))
        S.append(mk_sub('F6-fail-restore-n2', _faults_basic(2, [
            {'k': 'fail', 'dev': 'p1', 't': 't0'}, {'k': 'restore', 'dev': 'p1', 't': 't1'}]), mons, zero=['cs'], pre=['t0 <= t1']))
    elif prop == 'C03':
        mons = ['wakeup']
        for kinds in (['P', 'B'] if q else ['H', 'P', 'B', 'HP', 'PB', 'BP']):
            S.append(mk_sub(f'F1-{kinds}-n2', serial(kinds, 2, caps={1: 1, 2: 1}), mons))
        S.append(mk_sub('F1-BP-n2-zero', serial('BP', 2, caps={1: 1}), mons, zero=['c0', 'cs']))
        S.append(mk_sub('F6-shutdown-restore-n2', _faults_basic(2, [
            {'k': 'shutdown', 'dev': 'p1', 't': 't0'}, {'k': 'restore', 'dev': 'p1', 't': 't1'}]), mons, zero=['cs'], pre=['t0 <= t1']))
        S.append(mk_sub('F8-block-unblock-n2', with_ops(serial('H', 2), [
            {'k': 'block', 'dev': 'h1', 't': 't0'}, {'k': 'unblock', 'dev': 'h1', 't': 't1'}]), mons, zero=['cs'], pre=['t0 <= t1']))
        S.append(mk_sub('F6-fail-restore-n2', _faults_basic(2, [
            {'k': 'fail', 'dev': 'p1', 't': 't0'}, {'k': 'restore', 'dev': 'p1', 't': 't1'}]), mons, zero=['cs'], pre=['t0 <= t1']))
        S.append(mk_sub('F5-two-procs-one-pool', resources2(2), mons, zero=['cs', 'c0']))
        S.append(mk_sub('F5-pool-raised-later', with_ops(resources2(2, cap=0), [
            {'k': 'addres', 'res': 'r', 'amount': 1, 't': 't0'}]), mons, zero=['cs', 'c0']))
        S.append(mk_sub('F8-budget-raise', with_ops(serial('H', 1), [
            {'k': 'budget', 'dev': 'src', 't': 't0', 'n': 1}]), mons, zero=['cs']))
    elif prop == 'C05':
        mons = ['buffer']
        S.append(mk_sub('F1-B-n3-cap1', serial('B', 3, caps={1: 1}), mons, zero=['c0'] if q else []))
        S.append(mk_sub('F1-B-n3-cap2', serial('B', 3, caps={1: 2}), mons, zero=['cs'] if q else []))
        S.append(mk_sub('F1-BP-n2-cap2', serial('BP', 2, caps={1: 2}), mons, zero=['cs']))
        S.append(mk_sub('F1-BP-n3-cap2-slow-consumer', serial('BP', 3, caps={1: 2}), mons, zero=['c0', 'cs']))
    elif prop == 'C06':
        mons = ['cycle']
        S.append(mk_sub('F1-P-n2', serial('P', 2), mons))
        S.append(mk_sub('F1-HP-n2', serial('HP', 2), mons, zero=['cs']))
        S.append(mk_sub('F6-shutdown-restore-n1', _faults_basic(1, [
            {'k': 'shutdown', 'dev': 'p1', 't': 't0'}, {'k': 'restore', 'dev': 'p1', 't': 't1'}]), mons, pre=['t0 <= t1']))
        S.append(mk_sub('F6-shutdown-fail-restore', _faults_basic(2 if not q else 1, [
            {'k': 'shutdown', 'dev': 'p1', 't': 't0'}, {'k': 'armfail', 'dev': 'p1', 't': 't0', 'delay': 'd1'},
            {'k': 'restore', 'dev': 'p1', 't': 't2'}]), mons, zero=['cs'], pre=['t0 + d1 <= t2']))
        if not q:
          S.append(mk_sub('F6-shutdown-restore-shutdown-restore', _faults_basic(1, [
            {'k': 'shutdown', 'dev': 'p1', 't': 't0'}, {'k': 'restore', 'dev': 'p1', 't': 't1'},
            {'k': 'shutdown', 'dev': 'p1', 't': 't2'}, {'k': 'restore', 'dev': 'p1', 't': 't3'}]), mons, zero=['cs'],
            pre=['t0 <= t1', 't1 <= t2', 't2 <= t3']))
        else:
          S.append(mk_sub('F6-shutdown-restore-shutdown', _faults_basic(1, [
            {'k': 'shutdown', 'dev': 'p1', 't': 't0'}, {'k': 'restore', 'dev': 'p1', 't': 't1'},
            {'k': 'shutdown', 'dev': 'p1', 't': 't2'}]), mons, zero=['cs', 'c0'], pre=['t0 <= t1', 't1 <= t2']))
        S.append(mk_sub('F6-fail-restore-n2', _faults_basic(2, [
            {'k': 'fail', 'dev': 'p1', 't': 't0'}, {'k': 'restore', 'dev': 'p1', 't': 't1'}]), mons, zero=['cs'], pre=['t0 <= t1']))
        S.append(mk_sub('F1-P-offset', with_ops(serial('P', 2), [
            {'k': 'offset', 'dev': 'p1', 't': 0, 'amount': 'o1', 'prio': 'high'}]), mons, zero=['cs'],
            ranges={'o1': (-L.T, L.T)}))
    elif prop == 'C13':
        mons = ['uptime']
        S.append(mk_sub('F6-shutdown-restore-n2', _faults_basic(1 if q else 2, [
            {'k': 'shutdown', 'dev': 'p1', 't': 't0'}, {'k': 'restore', 'dev': 'p1', 't': 't1'}]), mons, zero=['cs'], pre=['t0 <= t1']))
        S.append(mk_sub('F6-fail-restore-n2', _faults_basic(2, [
            {'k': 'fail', 'dev': 'p1', 't': 't0'}, {'k': 'restore', 'dev': 'p1', 't': 't1'}]), mons, zero=['cs'], pre=['t0 <= t1']))
        S.append(mk_sub('F6-shutdown-armfail-restore', _faults_basic(1, [
            {'k': 'shutdown', 'dev': 'p1', 't': 't0'}, {'k': 'armfail', 'dev': 'p1', 't': 't0', 'delay': 'd1'},
            {'k': 'restore', 'dev': 'p1', 't': 't2'}]), mons, zero=['cs'], pre=['t0 + d1 <= t2']))
        S.append(mk_sub('F6-double-shutdown-double-restore', _faults_basic(1, [
            {'k': 'shutdown', 'dev': 'p1', 't': 't0'}, {'k': 'shutdown', 'dev': 'p1', 't': 't1'},
            {'k': 'restore', 'dev': 'p1', 't': 't2'}, {'k': 'restore', 'dev': 'p1', 't': 't3'}]), mons, zero=['cs', 'c0'] if q else ['cs'],
            pre=['t0 <= t1', 't1 <= t2', 't2 <= t3']))
        S.append(mk_sub('F6-workorder', with_ops(serial('P', 1 if q else 2), [
            {'k': 'workorder', 'dev': 'p1', 't': 't0', 'tag': 'm'}], maint=True, durs={'m': 'w0'}), mons, zero=['cs']))
        S.append(mk_sub('F6-fail-with-finished-part-blocked', with_ops(serial('PH', 2), [
            {'k': 'fail', 'dev': 'p1', 't': 't0'}, {'k': 'restore', 'dev': 'p1', 't': 't1'}]), mons, zero=['cs', 'c0'],
            pre=['t0 <= t1']))
    return S


SPLITS = {   # heavy analyses are case-split by the order pattern of these expression pairs
    'F6-shutdown-restore-n2': [('t0', 'c0'), ('t0', 'c0 + c1'), ('t1', 'c0 + c1')],
    'F8-block-unblock-n2': [('t0', 'c0'), ('t1', 'c0 + c1'), ('t1', '2 * c0')],
    'F6-shutdown-restore-shutdown-restore': [('t0', 'c0'), ('t1', 'c0 + c1'), ('t2', 'c0 + c1')],
    'F6-double-shutdown-double-restore': [('t0', 'c0'), ('t2', 'c0 + c1'), ('t3', 'c0 + c1')],
    'F6-workorder': [('t0', 'c0'), ('t0', 'c0 + c1'), ('t0 + w0', 'c0 + c1')],
    'F6-fail-restore-n2': [('t0', 'c0'), ('t0', 'c0 + c1')],
    'F6-shutdown-fail-restore': [('t0', 'c0'), ('t0 + d1', 'c0 + c1')],
    'F6-shutdown-armfail-restore': [('t0', 'c0'), ('t0 + d1', 'c0 + c1')],
}


def jobs(tier, prop):
    subs = []
    for s in _subs(tier, prop):
        subs += split_by_order(s, SPLITS[s['name']]) if s['name'] in SPLITS else [s]
    return pack(subs, 32 if tier == 'quick' else 128, lambda s: 1.0, f'{prop.lower()}-l', weights='distinct',
                timeout=170 if tier == 'quick' else 1500)


def bounds_text(tier, prop):
    return ('models: ' + '; '.join(s['name'] for s in _subs(tier, prop)) + ' -- serial lines Source -> stations -> Sink with the '
            'listed station kinds (H handler, P processor, B buffer), n = source part budget, fault/blocking operations at '
            'symbolic instants; all cycle times, delays and instants symbolic ints in [1, 10**6] unless named zero; every '
            'tie-break order (symbolic pairwise distinct weights)')


REQUIRED = {
    'C02': ['part_delivered', 'part_lost_to_failure'],
    'C03': ['blocked_part_genuinely_blocked'],
    'C05': ['buffer_released_part', 'buffer_full', 'buffer_two_waiting', 'buffer_released_exactly_at_delay'],
    'C06': ['part_finished_on_time', 'processing_interrupted_by_maintenance', 'processing_resumed', 'failure_ended_processing',
            'offset_floored_at_zero'],
    'C13': ['failure_occurred', 'failure_lost_a_part', 'failure_while_down_with_part', 'repeated_shutdown', 'repeated_restore',
            'restored', 'utilization_accumulated', 'work_order_finished', 'work_order_in_progress'],
}


def required_goals(tier, prop):
    return REQUIRED.get(prop, [])


def signature(failure):
    return failure['label']


def run(shape, args, ctx):
    return L.run(shape, args, ctx)
