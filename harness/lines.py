"""Device-level harness: builds a real System with real devices from a declarative
spec, drives it with System.simulate, and evaluates plug-in monitors after every
executed event and at every instant at which the clock is about to advance.

Spec (shape['spec']):
  {'pools': {'r': 'cap0'},
   'devices': [ {'k': 'source', 'name': 'src', 'cycle': 'c0', 'parts': 2, 'value': 'v0'},
                {'k': 'handler'|'proc'|'buffer'|'sink'|'gate'|'batcher'|'path', ...}, ...],
   'groups': [ {'name': 'g', 'devices': ['m1']} ],
   'ops': [ {'k': 'shutdown'|'restore'|'fail'|'workorder'|'block'|'unblock'|'addres'|'budget'|..., 'dev': 'p1', 't': 't0', ...} ],
   'horizon': 10**7}
A value that is a string names a harness parameter (symbolic int); an int is concrete.
"""
import copy

from simprocesd.model import System, EventType
from simprocesd.model.factory_floor import (Source, Sink, PartHandler, PartProcessor, Buffer, DecisionGate,
                                            PartBatcher, Group, Maintainer, Part, PartGenerator, Batch, ActionScheduler,
                                            PartFlowController)
from simprocesd.model.sensors import PeriodicSensor, OutputPartSensor, Sensor, AttributeProbe, Probe
from simprocesd.model.cms import Cms

from engine.ctx import Truncated

HARNESS_ASSET = -7


class _Inert:
    """Stands in for monitor state inside deep copies of the system (wake-up probe)."""

    def __deepcopy__(self, memo):
        return self


class Pallet(Batch):
    """A user-defined kind of batch (the documented way to specialise parts is to subclass them): every batch a harness source
    makes is one of these, so the library has to treat subclasses of Batch as batches."""


class RecGen(PartGenerator):
    """Documented extension point generate_part_helper; records what a source made."""

    def __init__(self, prefix, value, log, batch_sizes=None, items=None):
        super().__init__(prefix, value=value)
        self._given_value = value
        self._log = log
        self._items = items if items is not None else []
        self._batch_sizes = batch_sizes

    def generate_part_helper(self, part_name, part_counter):
        sizes = self._batch_sizes
        if sizes is not None and part_counter - 1 < len(sizes) and sizes[part_counter - 1] is not None:
            entry = sizes[part_counter - 1]
            parts = []
            if isinstance(entry, (list, tuple)):
                # nested: a batch holding one inner batch of entry[0] parts plus entry[1] loose parts
                inner = []
                for j in range(entry[0]):
                    p = Part(f'{part_name}_i{j}', self.value, self.quality)
                    p.idx = (part_counter, j)
                    p.start_value = self._given_value
                    inner.append(p)
                    self._log.append(p)
                ib = Batch(part_name + '_inner', inner)
                ib.idx = (part_counter, 'inner')
                parts.append(ib)
                entry = entry[1]
            for j in range(entry):
                p = Part(f'{part_name}_{j}', self.value, self.quality)
                p.idx = (part_counter, 10 + j)
                p.start_value = self._given_value
                parts.append(p)
                self._log.append(p)
            b = Pallet(part_name, parts)
            b.idx = (part_counter, None)
            self._items.append(b)
            return b
        p = super().generate_part_helper(part_name, part_counter)
        p.idx = (part_counter, None)
        p.start_value = self._given_value
        self._log.append(p)
        self._items.append(p)
        return p

    def __deepcopy__(self, memo):
        g = PartGenerator(self.name_prefix, self.value, self.quality)
        g._generated_part_counter = self._generated_part_counter
        return g


class World:
    """Everything a monitor may look at."""

    def __init__(self, ctx, spec, args):
        self.ctx, self.spec, self.args = ctx, spec, args
        self.system = None
        self.env = None
        self.dev = {}            # name -> device
        self.kind = {}           # name -> kind string
        self.order = []          # device names in spec order
        self.generated = []      # leaf parts in creation order (per run)
        self.items = []          # what the sources generated (parts and batches), in creation order
        self.gate_log = []       # (gate, id(leaf part), verdict) at every evaluation of a gate predicate
        self.start_value = {}    # device name -> starting value given to its constructor (default 0)
        self.between = {}        # run index -> operations performed after that run returned
        self.deferred = []       # callback registrations to perform after the monitors attached theirs
        self.maintainer = None
        self.monitors = []
        self.events = 0
        self.max_events = 0
        self.probe_depth = 0
        self.last_event = None

    def spec_of(self, name):
        return next((d for d in self.spec['devices'] if d['name'] == name), {})

    def val(self, v):
        return self.args[v] if isinstance(v, str) else v

    def zval(self, v):
        return self.ctx.z(self.val(v))

    def now(self):
        return self.ctx.z(self.env.now)

    def devices_of(self, *kinds):
        return [self.dev[n] for n in self.order if self.kind[n] in kinds]


def leaves(item):
    if item is None:
        return []
    if isinstance(item, Batch):
        out = []
        for p in item.parts:
            out += leaves(p)
        return out
    return [item]


_HASHED = {}


def _hashed(cls, world):
    """S10: object hashes stand for memory addresses, which differ from process to process.  When world.hash_order is
    set, devices are instances of a subclass that only adds __hash__ (ascending or descending per run), so that any
    dependence of a decision on set / dict-of-objects iteration order becomes visible as a difference between runs."""
    mode = getattr(world, 'hash_order', None)
    if mode is None:
        return cls
    if cls not in _HASHED:
        _HASHED[cls] = type(cls.__name__, (cls,), {'__hash__': lambda self: self._verif_hash})
    base = _HASHED[cls]

    def make(*a, **k):
        obj = base.__new__(base)
        world.hash_seq = getattr(world, 'hash_seq', 0) + 1
        obj._verif_hash = world.hash_seq if mode == 'asc' else 1000 - world.hash_seq
        obj.__init__(*a, **k)
        return obj
    return make


def members(item):
    """Number of parts an item counts for in a buffer level / sink counter: the direct members of a batch (the library's
    documented rule: 'the number of Parts contained within the Batch'); whether a nested batch should count its leaves
    instead is not settled by the properties, so the oracles follow the documented rule."""
    return len(item.parts) if isinstance(item, Batch) else 1


def build(world):
    ctx, spec = world.ctx, world.spec
    WProc = globals()['WProc']
    Source, PartHandler, PartProcessor, Buffer, Sink, DecisionGate, PartBatcher = (
        _hashed(c, world) for c in (globals()['Source'], globals()['PartHandler'], globals()['PartProcessor'], globals()['Buffer'],
                                    globals()['Sink'], globals()['DecisionGate'], globals()['PartBatcher']))
    system = System()
    world.system, world.env = system, system.env
    for name, cap in spec.get('pools', {}).items():
        system.resource_manager.add_resources(name, world.val(cap))
    if ctx.symbolic:   # S8: see c09_pool._IntPool
        rm = system.resource_manager
        rm._resources = {k: ((0 if type(u) is float and u == 0.0 else u), c) for k, (u, c) in rm._resources.items()}
    groups = {g['name']: g for g in spec.get('groups', [])}
    group_objs = {}
    for d in spec['devices']:
        k, name = d['k'], d['name']
        key = name
        if d.get('default_name'):
            name = None          # the library derives the name from the asset id
        # a device listed in a group is created first; the group is created when its first path is needed
        up = [world.dev[u] for u in d.get('up', [])]
        v0 = {} if d.get('value0') is None else {'value': world.val(d['value0'])}
        if v0:
            world.start_value[key] = world.val(d['value0'])
        if k == 'source':
            gen = RecGen(f'P{name}', world.val(d.get('value', 0)), world.generated, d.get('batches'), world.items)
            if 'batches' in d and d['batches'] is not None:
                gen._batch_sizes = [None if b is None else (tuple(b) if isinstance(b, (list, tuple)) else world.val(b)) for b in d['batches']]
            obj = Source(name, gen, world.val(d.get('cycle', 0)), d.get('parts', 2))
        elif k == 'handler':
            obj = PartHandler(name, up, world.val(d.get('cycle', 0)), **v0)
            if d.get('recv_addvalue') is not None:
                # registered after the monitors' callbacks (run_world): those see the part as it arrived, like the record
                world.deferred.append(lambda obj=obj, a=world.val(d['recv_addvalue']): obj.add_receive_part_callback(
                    lambda h, part: [p.add_value('rework', a) for p in leaves(part)]))
        elif k == 'proc':
            res = d.get('res')
            wp = ('durs' in d or 'needs' in d or 'costs' in d)
            cls = _hashed(WProc, world) if wp else PartProcessor
            obj = cls(name, up, world.val(d.get('cycle', 0)),
                      resources_for_processing=None if res is None else {r: world.val(a) for r, a in res.items()}, **v0)
            if d.get('repair_on_the_spot'):
                # a user's shutdown callback that repairs the machine at once (registered after the monitors' callbacks)
                world.deferred.append(lambda obj=obj: obj.add_shutdown_callback(lambda m, is_failure, part: m.restore_functionality()))
            if wp:
                # instance attributes (a class built with type(...) would push the symbolic numbers through a C call,
                # which makes CrossHair enumerate their values)
                obj.wo_durs = {t: world.val(v) for t, v in d.get('durs', {}).items()}
                obj.wo_needs = {t: world.val(v) for t, v in d.get('needs', {}).items()}
                obj.wo_costs = {t: world.val(v) for t, v in d.get('costs', {}).items()}
        elif k == 'buffer':
            obj = Buffer(name, up, world.val(d.get('delay', 0)), d.get('cap'), **v0)
        elif k == 'sink':
            obj = Sink(name, up, world.val(d.get('cycle', 0)), collect_parts=True)
            if d.get('recv_addvalue') is not None:
                world.deferred.append(lambda obj=obj, a=world.val(d['recv_addvalue']): obj.add_receive_part_callback(
                    lambda h, part: [p.add_value('write-down', a) for p in leaves(part)]))
        elif k == 'gate':
            pred = d['pred']
            if pred == 'even':
                fn = lambda gate, part: part.idx[0] % 2 == 0
            elif pred == 'odd':
                fn = lambda gate, part: part.idx[0] % 2 == 1
            elif pred == 'value_ge1':
                fn = lambda gate, part: part.value >= 1
            elif pred == 'value_lt1':
                fn = lambda gate, part: part.value < 1
            elif pred == 'all':
                fn = lambda gate, part: True
            else:
                fn = lambda gate, part: False
            def logged(gate, part, fn=fn, key=key):
                # the verdict is logged at the moment the gate is asked (the part may change afterwards, e.g. in a rework loop)
                v = fn(gate, part)
                if not world.probe_depth:
                    for leaf in leaves(part):
                        world.gate_log.append((key, id(leaf), bool(v)))
                return v
            obj = DecisionGate(name, up, decider_override=logged)
            obj.pred = fn
        elif k == 'batcher':
            obj = PartBatcher(name, up, output_batch_size=d.get('size'), **v0)
        elif k == 'path':
            gname = d['group']
            if gname not in group_objs:
                g = groups[gname]
                group_objs[gname] = Group(gname, [world.dev[m] for m in g['devices']])
            obj = group_objs[gname].get_new_group_path(name, up)
        elif k == 'scheduler':
            sched = [(world.val(dd), st) for dd, st in zip(d['durs'], d['states'])]
            obj = ActionScheduler(sched, name=name, is_cyclical=d.get('cyclical', True))
            world.sched_calls = []
            obj.register_object(object(), lambda s_, o_, t_, st_: world.sched_calls.append((t_, st_)))
        elif k == 'maintainer':
            obj = Maintainer(name, capacity=world.val(d.get('capacity', 10 ** 6)), **v0)
            world.maintainer = obj
        elif k == 'junction':
            obj = PartFlowController(name, up, **v0)
        elif k == 'psensor':
            obj = PeriodicSensor(world.val(d['interval']), [AttributeProbe('name', world.dev[d['target']])], name, **v0)
        elif k == 'osensor':
            obj = OutputPartSensor(world.dev[d['target']], [Probe(lambda part: part.id, None)], name=name, **v0)
        elif k == 'sensor':
            obj = Sensor([AttributeProbe('name', world.dev[d['target']])], name, **v0)
        elif k == 'cms':
            obj = Cms(world.maintainer, name, **v0)
        else:
            raise ValueError(k)
        if d.get('pre_offset') is not None:
            obj.offset_next_cycle_time(world.val(d['pre_offset']))      # requested by the user's script before the start
        world.dev[key] = obj
        world.kind[key] = k
        world.order.append(key)
    for d in spec['devices']:
        if d.get('up_late'):
            world.dev[d['name']].set_upstream([world.dev[u] for u in d['up_late']])
    world.groups = group_objs
    return system


def _schedule_ops(world):
    """A3: every external operation is its own event."""
    env, ctx = world.env, world.ctx
    for i, op in enumerate(world.spec.get('ops', [])):
        k = op['k']
        dev = world.dev.get(op.get('dev'))
        t = world.val(op.get('t', 0))
        prio = {'low': EventType.OTHER_LOW_PRIORITY, 'high': EventType.OTHER_HIGH_PRIORITY}[op.get('prio', 'low')]

        def action(k=k, dev=dev, op=op, i=i):
            world.last_op = (i, k)
            for m in world.monitors:
                m.before_op(i, op)
            if k == 'shutdown':
                dev.shutdown()
            elif k == 'restore':
                dev.restore_functionality()
            elif k == 'workorder':
                ok = world.maintainer.create_work_order(dev, op.get('tag'))
                for m in world.monitors:
                    m.on_work_order_request(dev, op.get('tag'), ok)
            elif k == 'block':
                dev.block_input = True
            elif k == 'unblock':
                dev.block_input = False
            elif k == 'addres':
                try:
                    env.resource_manager.add_resources(op['res'], world.val(op['amount']))
                except ValueError:
                    pass
            elif k == 'hold':
                # somebody else (the harness) takes resources from the pool ...
                world.held = getattr(world, 'held', {})
                world.held[op['res']] = env.resource_manager.reserve_resources({op['res']: world.val(op['amount'])})
            elif k == 'unhold':
                # ... and gives them back later
                r = getattr(world, 'held', {}).pop(op['res'], None)
                if r is not None:
                    r.release()
            elif k == 'budget':
                dev.adjust_part_count(op['n'])
            elif k == 'rewire':
                dev.set_upstream([world.dev[u] for u in op['up']])
            elif k == 'setcycle':
                dev.cycle_time = world.val(op['cycle'])
            elif k == 'offset':
                dev.offset_next_cycle_time(world.val(op['amount']))
            elif k == 'armfail':
                # schedule_failure called at run time (e.g. while the machine is already down)
                due = env.now + world.val(op['delay'])
                dev.schedule_failure(due, 'harness')
                for m in world.monitors:
                    m.on_failure_armed(dev, due)
            elif k == 'setattr':
                setattr(dev, op['attr'], world.val(op['value']))
            else:
                raise ValueError(k)
            for m in world.monitors:
                m.after_op(i, op)
        action.__name__ = f'op_{k}'
        if 'after_run' in op:
            # performed by the user's script between two simulate() calls, not by an event
            world.between.setdefault(op['after_run'], []).append(action)
            continue
        if k == 'fail':
            # the documented API (FAIL priority, the machine's own asset id); needs an initialised machine,
            # so it is called from an event at time 0
            def arm(dev=dev, t=t):
                dev.schedule_failure(t, 'harness')
                for m in world.monitors:
                    m.on_failure_armed(dev, t)
            arm.__name__ = 'op_arm_failure'
            env.schedule_event(0, HARNESS_ASSET, arm, EventType.OTHER_HIGH_PRIORITY, 'harness arms failure')
        else:
            env.schedule_event(t, HARNESS_ASSET, action, prio, f'harness op {k}')


class Monitor:
    def __init__(self, world):
        self.w = world
        self.ctx = world.ctx

    def __deepcopy__(self, memo):
        return self     # shared: callbacks look at world.probe_depth and do nothing inside a probe

    def attach(self):
        pass

    def after_event(self, ev):
        pass

    def before_clock_advance(self):
        pass

    def at_end(self):
        pass

    def after_run(self):
        pass

    def before_op(self, i, op):
        pass

    def after_op(self, i, op):
        pass

    def on_failure_armed(self, dev, due):
        pass

    def on_work_order_request(self, dev, tag, ok):
        pass


def install_step_wrapper(world):
    env, ctx = world.env, world.ctx
    real_step = env.step

    def step():
        with ctx.notrace():
            if world.probe_depth:
                raise AssertionError('probe must not step')
            world.events += 1
            ctx.count('events')
            if world.events > world.max_events:
                raise Truncated()
            head = env._events[0]
            advancing = ctx.decide(ctx.z(head.time) > ctx.z(env.now))
        if advancing:
            world.next_time = ctx.z(head.time)      # the instant the clock is about to jump to
            for m in world.monitors:
                m.before_clock_advance()
            world.next_time = None
        world.last_event = head
        real_step()
        for m in world.monitors:
            m.after_event(head)
    env.step = step


def run_world(world, monitors):
    """Build, attach monitors, simulate to the horizon, final checks.  Exceptions escaping the
    simulator are reported through world.on_sim_exception (C03 turns them into a violation)."""
    system = build(world)
    world.monitors = [m(world) for m in monitors]
    ndev, nparts = len(world.order), sum(d.get('parts', 0) for d in world.spec['devices'] if d['k'] == 'source')
    world.max_events = 40 * (ndev + 2) * (nparts + 1) + 50 * len(world.spec.get('ops', [])) + 50
    install_step_wrapper(world)
    _schedule_ops(world)
    for m in world.monitors:
        m.attach()
    for f in world.deferred:
        f()
    horizons = world.spec.get('horizons') or [world.spec.get('horizon', 10 ** 7)]
    trace = bool(world.spec.get('trace'))
    if trace:
        world.trace_recorder = _TraceRecorder.install()
    for i, h in enumerate(horizons):
        world.run_end = world.ctx.z(world.env.now) + world.zval(h)
        system.simulate(world.val(h), trace=trace, print_summary=False)
        for m in world.monitors:
            m.after_run()
        for m in world.monitors:
            m.before_clock_advance()
        for act in world.between.get(i, []):
            act()
    for m in world.monitors:
        m.at_end()
    return world


VALUE_KEYS = {'cycle', 'delay', 'value', 'value0', 't', 'amount', 'capacity', 'dur', 'cost', 'needcap', 'interval', 'horizon',
              'addvalue', 'finish_offset', 'recv_addvalue', 'pre_offset'}
VALUE_CONTAINERS = {'pools', 'res', 'batches', 'horizons', 'durs', 'needs', 'costs'}   # 'durs' may be a dict (work orders) or a list (scheduler)


class _TraceRecorder:
    """S5: open() and json in simulation.py's namespace are replaced by recorders (the export target is
    a file under ~/Downloads: file I/O is the environment)."""

    def __init__(self):
        self.dumps = []

    @staticmethod
    def install():
        import simprocesd.model.simulation as sim
        rec = _TraceRecorder()

        class _F:
            def __enter__(self):
                return self

            def __exit__(self, *a):
                return False

        class _J:
            @staticmethod
            def dump(obj, fp):
                rec.dumps.append(dict(obj))
        sim.open = lambda *a, **k: _F()
        sim.json = _J
        return rec


def params_of(spec):
    """All parameter names mentioned in a spec (strings in value positions)."""
    names = []

    def add(v):
        if isinstance(v, str) and v not in names:
            names.append(v)

    def walk(v):
        if isinstance(v, dict):
            for k2, x in v.items():
                if k2 in VALUE_KEYS:
                    add(x)
                elif k2 in VALUE_CONTAINERS:
                    for y in (x.values() if isinstance(x, dict) else (x or [])):
                        add(y)
                elif isinstance(x, (dict, list)):
                    walk(x)
        elif isinstance(v, list):
            for x in v:
                walk(x)
    walk(spec)
    return names


# =====================================================================================================
# Monitors
# =====================================================================================================
class Census(Monitor):
    """C02: every generated leaf part is in exactly one place; single slots; source budgets."""

    def attach(self):
        w = self.w
        self.lost = []          # parts reported lost through a failure shutdown callback
        self.failures = {}      # processor name -> number of failure callbacks
        self.budget = {}
        for n in w.order:
            d = w.dev[n]
            if w.kind[n] == 'proc':
                d.add_shutdown_callback(self._on_shutdown)
            if w.kind[n] == 'source':
                self.budget[n] = d._max_produced_parts
        self.check('initial state')

    def _on_shutdown(self, proc, is_failure, part):
        if self.w.probe_depth:
            return
        if is_failure and part is not None:
            self.lost.append(part)

    def after_op(self, i, op):
        if op['k'] == 'budget':
            n = op['dev']
            src = self.w.dev[n]
            self.budget[n] = max(self.budget[n] + op['n'], src.produced_parts)

    def after_event(self, ev):
        self.check(f'after event {getattr(ev.action, "__name__", "?")}')

    def check(self, where):
        w, ctx = self.w, self.ctx
        with ctx.notrace():
            places = {}     # id(part) -> list of place names

            def put(part, place):
                for leaf in leaves(part):
                    places.setdefault(id(leaf), []).append(place)
            for n in w.order:
                d, k = w.dev[n], w.kind[n]
                if k == 'sink':
                    for p in d.collected_parts:
                        put(p, f'sink {n}')
                    continue
                if k in ('source', 'handler', 'proc', 'buffer', 'batcher'):
                    put(d._part, f'{n}.input')
                    put(d._output, f'{n}.output')
                    if k in ('handler', 'proc', 'source'):
                        ctx.require(d._part is None or d._output is None, 'single-slot device holds two parts', n)
                if k == 'buffer':
                    stored_now = ctx.real(lambda: list(d.stored_parts))
                    for p in stored_now:
                        put(p, f'{n}.buffer')
                    ctx.require(d.level() == sum(members(p) for p in stored_now),
                                'the buffer reports a number of parts inside it that differs from the parts it stores', n)
                if k == 'batcher' and d._in_progress_batch is not None:
                    put(d._in_progress_batch, f'{n}.in_progress')
                if k == 'source':
                    ctx.require(d.produced_parts <= self.budget[n], 'source supplied more parts than its budget', n)
            for p in self.lost:
                put(p, 'lost')
            # failure log: a device_failure record with a part id also reports a loss
            logged = {}
            for n, recs in w.env.simulation_data.get('device_failure', {}).items():
                for rec in recs:
                    if rec[1] is not None:
                        logged[rec[1]] = logged.get(rec[1], 0) + 1
            for part in w.generated:
                pl = places.get(id(part), [])
                if not pl and logged.get(part.id, 0) == 1:
                    pl = ['lost (failure log)']
                ctx.require(len(pl) == 1, 'part not in exactly one place',
                            f'{where}: part #{part.idx} is in {pl if pl else "no place"}')
            known = {id(p) for p in w.generated}
            for pid, pl in places.items():
                ctx.require(pid in known, 'a part appeared that no source generated', f'{where}: {pl}')
            if self.lost:
                ctx.goal('part_lost_to_failure')
            if any(len(d.collected_parts) for d in w.devices_of('sink')):
                ctx.goal('part_delivered')


class Wakeup(Monitor):
    """C03: at every instant at which the clock is about to advance no ready part would be
    accepted downstream.  Oracle = the real give_part on a deep copy of the whole system."""

    def before_clock_advance(self):
        w, ctx = self.w, self.ctx
        from engine import stubs
        holders = []
        for n in w.order:
            d, k = w.dev[n], w.kind[n]
            if k in ('handler', 'proc', 'batcher') and d._output is not None and d.is_operational():
                holders.append((n, 'output'))
            elif k == 'source' and d._output is not None and d.remaining_parts >= 1:
                holders.append((n, 'output'))
            elif k == 'buffer' and d._buffer:
                with ctx.notrace():
                    waited = ctx.z(w.env.now) - ctx.z(d._buffer[0][0])
                    ready = ctx.decide(waited >= ctx.z(d._minimum_delay))
                if ready:
                    holders.append((n, 'head'))
        if not holders:
            return
        ctx.count('probes')
        saved_rng = ctx.rng
        ctx.rng = _ProbeRng()
        w.probe_depth += 1
        try:
            for n, what in holders:
                memo = {}
                clone = copy.deepcopy((w.system, [w.dev[x] for x in w.order]), memo)
                cd = clone[1][w.order.index(n)]
                part = cd._output if what == 'output' else cd._buffer[0][1]
                accepted = None
                for dwn in cd.get_sorted_downstream_list():
                    if dwn.give_part(part):
                        accepted = dwn.name
                        break
                if accepted is not None:
                    ctx.fail('lost wake-up: a ready part would be accepted downstream while the clock advances',
                             f'{n} holds a ready part that {accepted} accepts when offered')
                ctx.goal('blocked_part_genuinely_blocked')
        finally:
            w.probe_depth -= 1
            ctx.rng = saved_rng


class _ProbeRng:
    handed = []

    def random(self):
        return 0


class BufferMon(Monitor):
    """C05: level == stored leaf parts <= capacity; FIFO; minimum delay (exact on the integer grid)."""

    def attach(self):
        w = self.w
        self.arrival = {}     # buffer name -> {id(item): arrival time}
        self.prev = {}        # buffer name -> list of items stored after the previous event
        for d in w.devices_of('buffer'):
            self.arrival[d.name] = {}
            self.prev[d.name] = []
            d.add_receive_part_callback(self._received)

    def _received(self, buf, part):
        if self.w.probe_depth:
            return
        self.arrival[buf.name][id(part)] = self.w.now()
        self.sequence = getattr(self, 'sequence', {})
        self.sequence.setdefault(buf.name, []).append(part)

    def after_event(self, ev):
        w, ctx = self.w, self.ctx
        with ctx.notrace():
            for d in w.devices_of('buffer'):
                stored = ctx.real(lambda: list(d.stored_parts))
                n_leaves = sum(members(p) for p in stored)
                ctx.require(d.level() == n_leaves, 'buffer level != number of stored parts', d.name)
                ctx.require(n_leaves <= d.capacity, 'buffer stores more than its capacity', d.name)
                last = w.env.simulation_data.get('level', {}).get(d.name)
                prev = self.prev[d.name]
                # items that left since the previous event must be a prefix of the previous content
                now_ids = [id(p) for p in stored]
                gone = [p for p in prev if id(p) not in now_ids]
                k = len(gone)
                ctx.require([id(p) for p in prev[:k]] == [id(p) for p in gone], 'buffer released parts out of arrival order', d.name)
                stay = [id(p) for p in prev[k:]]
                ctx.require(now_ids[:len(stay)] == stay, 'buffer content reordered', d.name)
                seq = getattr(self, 'sequence', {}).get(d.name, [])
                for p in gone:          # departures in the order of arrival (as observed through the receive callback)
                    ctx.require(seq and seq[0] is p, 'buffer released parts out of arrival order', d.name)
                    seq.pop(0)
                ctx.require(len(seq) == len(stored) and all(a is b for a, b in zip(seq, stored)),
                            'stored_parts is not the not-yet-released parts in arrival order', d.name)
                if len(seq) >= 2 and ctx.possible(self.arrival[d.name][id(seq[0])] == self.arrival[d.name][id(seq[1])]):
                    ctx.goal('two_arrivals_same_instant')
                now = w.now()
                for p in gone:
                    arr = self.arrival[d.name].get(id(p))
                    ctx.require(arr is not None, 'buffer released a part it never received', d.name)
                    ctx.require(now >= arr + ctx.z(d.minimum_delay), 'part left the buffer before arrival + minimum delay', d.name)
                    ctx.goal('buffer_released_part')
                    ctx.goal_if('buffer_released_exactly_at_delay', ctx.And(now == arr + ctx.z(d.minimum_delay), ctx.z(d.minimum_delay) > 0))
                if n_leaves == d.capacity:
                    ctx.goal('buffer_full')
                if len(stored) >= 2:
                    ctx.goal('buffer_two_waiting')
                self.prev[d.name] = list(stored)


MONITORS = {'census': Census, 'wakeup': Wakeup, 'buffer': BufferMon}


# =====================================================================================================
# Scenario families and jobs
# =====================================================================================================
T = 10 ** 6      # bound on every symbolic time / duration


def serial(kinds, nparts, sink_cycle='cs', caps=None, free=None, res=None):
    """F1: Source -> X1..XJ -> Sink.  kinds: string over H (handler), P (processor), B (buffer)."""
    devs = [{'k': 'source', 'name': 'src', 'cycle': 'c0', 'parts': nparts}]
    prev = 'src'
    for j, kd in enumerate(kinds, 1):
        if kd == 'H':
            d = {'k': 'handler', 'name': f'h{j}', 'up': [prev], 'cycle': f'c{j}'}
        elif kd == 'P':
            d = {'k': 'proc', 'name': f'p{j}', 'up': [prev], 'cycle': f'c{j}'}
            if res:
                d['res'] = res
        else:
            d = {'k': 'buffer', 'name': f'b{j}', 'up': [prev], 'delay': f'c{j}', 'cap': (caps or {}).get(j, 1)}
        devs.append(d)
        prev = d['name']
    devs.append({'k': 'sink', 'name': 'snk', 'up': [prev], 'cycle': sink_cycle})
    return {'devices': devs}


def mk_sub(name, spec, monitors, zero=(), pre=(), ranges=None):
    """Parameters named in ``zero`` are the constant 0, every other time is symbolic >= 1
    (the zero pattern of DESIGN 6/C04); ``ranges`` overrides bounds per parameter."""
    spec = copy.deepcopy(spec)
    names = params_of(spec)
    params, fixed = [], {}
    for n in names:
        if n in zero:
            fixed[n] = 0
        else:
            lo, hi = (ranges or {}).get(n, (1, T))
            params.append([n, lo, hi])
    spec = _subst(spec, fixed)
    import re

    def fx(expr):
        for n, v in fixed.items():
            expr = re.sub(rf'\b{n}\b', str(v), expr)
        return expr
    return {'name': name, 'shape': {'spec': spec, 'monitors': list(monitors)}, 'params': params,
            'pre': [fx(p) for p in pre], 'fixed': fixed}


def _subst(v, fixed):
    if isinstance(v, dict):
        return {k: _subst(x, fixed) for k, x in v.items()}
    if isinstance(v, list):
        return [_subst(x, fixed) for x in v]
    if isinstance(v, str) and v in fixed:
        return fixed[v]
    return v


def zero_patterns(names, max_zero=None):
    import itertools
    for r in range(len(names) + 1):
        if max_zero is not None and r > max_zero:
            break
        for z in itertools.combinations(names, r):
            yield z


def run(shape, args, ctx):
    from engine.ctx import PropertyViolation
    world = World(ctx, shape['spec'], args)
    mons = [MONITORS[m] for m in shape['monitors']]
    if shape.get('prop') not in ('C03', 'C13', 'C06'):
        run_world(world, mons)
        return
    # C03 owns "a finite-horizon run of a well-posed model always returns" (DESIGN 4.7); in the C13 scenarios an
    # escaping exception is the machine acting while it is down ('Invalid PartHandler state', 'Input part is missing')
    try:
        run_world(world, mons)
    except (PropertyViolation, Truncated):
        raise
    except Exception as e:
        with ctx.notrace():
            import traceback
            try:
                tb = traceback.format_exception(type(e), e, e.__traceback__, limit=-4)
                detail = ' | '.join(x.strip() for x in tb)[-600:]
            except Exception:
                detail = type(e).__name__
        ctx.fail({'C03': 'run did not return: an exception escaped the simulator',
                  'C06': 'a cycle timer fired in an invalid state: an exception escaped the simulator'}.get(
                      shape.get('prop'), 'machine acted while shut down / in an invalid state: an exception escaped the simulator'), detail)


# =====================================================================================================
# C06 / C13 monitors
# =====================================================================================================
class WProc(PartProcessor):
    """PartProcessor with configurable work orders (the documented way to extend Maintainable)."""
    wo_durs = {}
    wo_needs = {}
    wo_costs = {}

    def get_work_order_duration(self, tag):
        return self.wo_durs.get(tag, 0)

    def get_work_order_capacity(self, tag):
        return self.wo_needs.get(tag, 0)

    def get_work_order_cost(self, tag):
        return self.wo_costs.get(tag, 0)


class CycleMon(Monitor):
    """C06: online remaining-time tracker per handler/processor; source and sink pacing."""

    def attach(self):
        w = self.w
        self.busy = {}      # device name -> dict(part, remaining, since) or None
        self.pending_offset = {}
        self.done = {}      # device name -> set of ids of parts already finished there
        for n in w.order:
            d, k = w.dev[n], w.kind[n]
            if k in ('handler', 'proc'):
                self.busy[n] = None
                self.done[n] = set()
                d.add_receive_part_callback(self._received)     # registered last: sees the cycle time in effect
                if w.spec_of(n).get('pre_offset') is not None:
                    # a one-shot offset the user's script requested before the simulation starts (applied by the builder)
                    self.pending_offset[n] = w.zval(w.spec_of(n)['pre_offset'])
                    self.ctx.goal('offset_applied')
                if k == 'proc':
                    d.add_shutdown_callback(self._down)
                    d.add_restored_callback(self._up)
                    fo = next(x for x in w.spec['devices'] if x['name'] == n).get('finish_offset')
                    if fo is not None:
                        # a finish-processing callback that sets a one-shot offset for the *next* part
                        d.add_finish_processing_callback(lambda dev, part, fo=fo: self._finish_offset(dev, fo))

    def _received(self, dev, part):
        w, ctx = self.w, self.ctx
        if w.probe_depth:
            return
        n = dev.name
        with ctx.notrace():
            ctx.require(self.busy[n] is None and dev._output is None, 'device accepted a part while holding another', n)
            self.done[n].discard(id(part))      # a new visit of the same part (re-entrant flow) may finish again
            # the one-shot offset is what the harness applied since this device's previous acceptance
            off = self.pending_offset.get(n, 0)
            self.pending_offset[n] = 0
            c = ctx.z(dev.cycle_time) + off
            self.busy[n] = {'part': part, 'remaining': ctx.Max(0, c), 'since': w.now(), 'floored': c}
            ctx.goal_if('offset_floored_at_zero', c < 0)
            ctx.goal_if('cycle_changed_in_callback', ctx.z(dev.cycle_time) != ctx.z(w.val(self._spec_cycle(n))))

    def after_op(self, i, op):
        if op['k'] == 'offset':
            n = op['dev']
            self.pending_offset[n] = self.pending_offset.get(n, 0) + self.w.zval(op['amount'])
            self.ctx.goal('offset_applied')

    def _finish_offset(self, dev, fo):
        if self.w.probe_depth:
            return
        amount = self.w.val(fo)
        dev.offset_next_cycle_time(amount)
        self.pending_offset[dev.name] = self.pending_offset.get(dev.name, 0) + self.ctx.z(amount)
        self.ctx.goal('offset_set_from_finish_callback')

    def _spec_cycle(self, n):
        for d in self.w.spec['devices']:
            if d['name'] == n:
                return d.get('cycle', 0)
        return 0

    def _down(self, dev, is_failure, part):
        w, ctx = self.w, self.ctx
        if w.probe_depth:
            return
        b = self.busy[dev.name]
        with ctx.notrace():
            if is_failure:
                if b is not None:
                    ctx.require(part is b['part'], 'failure did not report the part in process as lost', dev.name)
                    ctx.goal('failure_ended_processing')
                self.busy[dev.name] = None
            elif b is not None and b['since'] is not None:
                b['remaining'] = b['remaining'] - (w.now() - b['since'])
                b['since'] = None
                ctx.goal('processing_interrupted_by_maintenance')

    def _up(self, dev):
        w = self.w
        if w.probe_depth:
            return
        b = self.busy[dev.name]
        if b is not None and b['since'] is None:
            with self.ctx.notrace():
                b['since'] = w.now()
                self.ctx.goal('processing_resumed')

    def _left(self, b):
        now = self.w.now()
        return b['remaining'] if b['since'] is None else b['remaining'] - (now - b['since'])

    def after_event(self, ev):
        w, ctx = self.w, self.ctx
        with ctx.notrace():
            for n, b in self.busy.items():
                d = w.dev[n]
                if b is None:
                    continue
                if d._part is b['part']:
                    ctx.require(self._left(b) >= 0, 'part still in process after its cycle time elapsed', n)
                elif d._output is b['part']:
                    ctx.require(b['since'] is not None, 'part finished while the machine was down', n)
                    ctx.require(self._left(b) == 0, 'part finished at the wrong time (not exactly cycle time of operational time)', n)
                    ctx.require(id(b['part']) not in self.done[n], 'part finished twice', n)
                    self.done[n].add(id(b['part']))
                    self.busy[n] = None
                    ctx.goal('part_finished_on_time')
                else:
                    # neither slot: only legitimate through a failure (which clears busy in _down) or a loss report
                    lostlog = [r for r in w.env.simulation_data.get('device_failure', {}).get(n, []) if r[1] == b['part'].id]
                    ctx.require(len(lostlog) == 1, 'part in process vanished from the device', n)
                    self.busy[n] = None
            self._pacing()

    def before_clock_advance(self):
        w, ctx = self.w, self.ctx
        with ctx.notrace():
            for n, b in self.busy.items():
                if b is not None and b['since'] is not None and w.dev[n]._part is b['part']:
                    ctx.require(self._left(b) > 0, 'part finished late: cycle time elapsed but the part is still in process when time advances', n)
                    nt = getattr(w, 'next_time', None)
                    if nt is not None:
                        # the next event lies beyond the instant at which this part is due: nothing is scheduled to finish it then
                        ctx.require(b['remaining'] - (nt - b['since']) >= 0,
                                    'part finished late: the clock jumps past the instant at which its cycle time has elapsed', n)

    def _pacing(self):
        w, ctx = self.w, self.ctx
        data = w.env.simulation_data
        for n in w.order:
            k, d = w.kind[n], w.dev[n]
            if k == 'source':
                recs = data.get('supplied_new_part', {}).get(n, [])
                c = ctx.z(d.cycle_time)
                if len(recs) >= 1 and not getattr(self, f'_src_{n}_{len(recs)}', False):
                    setattr(self, f'_src_{n}_{len(recs)}', True)
                    prev = ctx.z(recs[-2][0]) if len(recs) >= 2 else 0
                    ctx.require(ctx.z(recs[-1][0]) >= prev + c, 'source supplied a part before its full cycle time', n)
            elif k == 'sink':
                recs = data.get('received_part', {}).get(n, [])
                if len(recs) >= 2 and not getattr(self, f'_snk_{n}_{len(recs)}', False):
                    setattr(self, f'_snk_{n}_{len(recs)}', True)
                    ctx.require(ctx.z(recs[-1][0]) >= ctx.z(recs[-2][0]) + ctx.z(d.cycle_time),
                                'sink accepted the next part before its cycle time', n)


class UptimeMon(Monitor):
    """C13: machine state, lost parts, callbacks, up-time / utilisation integrals."""

    def attach(self):
        w = self.w
        self.st = {}
        for d in w.devices_of('proc'):
            s = {'oper': True, 'proc': False, 'up': 0, 'busy': 0, 'last_t': 0, 'sd': [], 'rs': [], 'out_at_down': None,
                 'down_kind': None, 'part_before': None, 'out_before': None, 'fail_recs': 0, 'orders': [], 'armed': []}
            self.st[d.name] = s
            d.add_shutdown_callback(lambda p, f, part, s=s: self._sd(s, 'A', p, f, part))
            d.add_shutdown_callback(lambda p, f, part, s=s: self._sd(s, 'B', p, f, part))
            d.add_restored_callback(lambda p, s=s: self._rs(s, 'A', p))
            d.add_restored_callback(lambda p, s=s: self._rs(s, 'B', p))
            d.add_receive_part_callback(lambda p, part, s=s: self._recv(s, p, part))

    def _sd(self, s, tag, proc, is_failure, part):
        if self.w.probe_depth:
            return
        s['sd'].append((tag, is_failure, part, self.w.now()))
        if tag == 'A':
            # callbacks while already down are legitimate only to report the part lost to a failure
            self.ctx.require(s['oper'] or (is_failure and part is not None),
                             'shutdown callbacks ran although the machine was already down', proc.name)
            if s['oper'] and not is_failure:
                # maintenance freezes the machine's pending events, scheduled failures included
                for a in s['armed']:
                    if a['live'] and a['frozen_at'] is None:
                        a['frozen_at'] = self.w.now()
                        a['was_frozen'] = True
            s['oper'] = False
            s['down_kind'] = 'failure' if is_failure else 'maintenance'
            s['out_at_down'] = proc._output

    def _rs(self, s, tag, proc):
        if self.w.probe_depth:
            return
        s['rs'].append((tag, self.w.now()))
        if tag == 'A':
            self.ctx.require(not s['oper'], 'restored callbacks ran although the machine was operational', proc.name)
            s['oper'] = True
            s['down_kind'] = None
            for a in s['armed']:
                if a['live'] and a['frozen_at'] is not None:
                    # ... and restoration resumes them, postponed by the time spent down
                    a['due'] = a['due'] + (self.w.now() - a['frozen_at'])
                    a['frozen_at'] = None

    def on_failure_armed(self, dev, due):
        s = self.st.get(dev.name)
        if s is not None:
            with self.ctx.notrace():
                # scheduled while the machine is down: that event is not among the frozen ones
                s['armed'].append({'due': self.ctx.z(due), 'frozen_at': None, 'live': True, 'was_frozen': False})

    def before_clock_advance(self):
        ctx = self.ctx
        with ctx.notrace():
            now = self.w.now()
            for n, s in self.st.items():
                for a in s['armed']:
                    if a['live'] and a['frozen_at'] is None:
                        ctx.require(a['due'] > now, 'a scheduled failure that is due has not struck although time advances', n)

    def _recv(self, s, proc, part):
        if self.w.probe_depth:
            return
        self.ctx.require(s['oper'] and proc.is_operational(), 'machine accepted a part while shut down or failed', proc.name)

    def before_event(self, ev):
        pass

    def after_event(self, ev):
        w, ctx = self.w, self.ctx
        with ctx.notrace():
            now = w.now()
            for d in w.devices_of('proc'):
                s = self.st[d.name]
                n = d.name
                # integrals: state was constant since the previous event
                dt = now - s['last_t']
                if s['was_oper'] if 'was_oper' in s else True:
                    s['up'] = s['up'] + dt
                    if s.get('was_proc', False):
                        s['busy'] = s['busy'] + dt
                s['last_t'] = now
                # callbacks: A then B, same arguments, once per occurrence
                sd = s['sd']
                ctx.require(len(sd) % 2 == 0, 'a shutdown callback was skipped', n)
                for i in range(0, len(sd), 2):
                    a, b = sd[i], sd[i + 1]
                    ctx.require(a[0] == 'A' and b[0] == 'B' and a[1] == b[1] and a[2] is b[2],
                                'shutdown callbacks not called once each in registration order', n)
                rs = s['rs']
                ctx.require(len(rs) % 2 == 0 and all(rs[i][0] == 'A' and rs[i + 1][0] == 'B' for i in range(0, len(rs), 2)),
                            'restored callbacks not called once each in registration order', n)
                ctx.require(d.is_operational() == s['oper'], 'is_operational() disagrees with the shutdown/restored callbacks', n)
                if not s['oper']:
                    ctx.require(d._output is s['out_at_down'], 'finished part left (or changed) while the machine was down', n)
                # failure bookkeeping: every failure record with a part <-> exactly one failure callback pair with it
                recs = w.env.simulation_data.get('device_failure', {}).get(n, [])
                lost_logged = [r[1] for r in recs if r[1] is not None]
                lost_cb = [x[2].id for x in sd[::2] if x[1] and x[2] is not None]
                ctx.require(sorted(lost_logged) == sorted(lost_cb),
                            'lost part not reported consistently (failure log vs shutdown callbacks)', n)
                if len(recs) > s['fail_recs']:
                    # a failure happened in this event: exactly the input part is gone, the finished one stays
                    ctx.goal('failure_occurred')
                    live = [a for a in s['armed'] if a['live'] and a['frozen_at'] is None]
                    ctx.require(len(recs) == s['fail_recs'] + 1, 'two failures of one machine in one event', n)
                    ctx.require(ctx.Or(*[a['due'] == now for a in live]) if live else False,
                                'a failure struck at an instant for which none was scheduled (a frozen one, or none at all)', n)
                    ctx.goal_if('postponed_failure_struck', ctx.Or(*[a['due'] == now for a in live if a['was_frozen']])
                                if any(a['was_frozen'] for a in live) else False)
                    for a in s['armed']:
                        a['live'] = False       # a failure cancels every other pending event of the machine
                    pb, ob = s['part_before'], s['out_before']
                    ctx.require(d._part is None, 'failure kept the part in process', n)
                    ctx.require(d._output is ob, 'failure dropped or changed the finished part', n)
                    if w.spec_of(n).get('repair_on_the_spot'):
                        ctx.require(d.is_operational(), 'machine repaired by a shutdown callback is not operational', n)
                    else:
                        ctx.require(not d.is_operational(), 'machine operational right after a failure', n)
                    if pb is not None:
                        ctx.require(recs[-1][1] == pb.id, 'failure log does not name the part in process', n)
                        ctx.goal('failure_lost_a_part')
                        if s.get('was_oper', True) is False:
                            ctx.goal('failure_while_down_with_part')
                    else:
                        ctx.require(recs[-1][1] is None, 'failure log names a part although none was in process', n)
                    s['fail_recs'] = len(recs)
                ctx.require(ctx.real(lambda: d.uptime) == s['up'], 'uptime != total operational time', n)
                ctx.require(ctx.real(lambda: d.utilization_time) == s['busy'], 'utilization != total processing time', n)
                s['was_oper'] = s['oper']
                s['was_proc'] = s['oper'] and d._part is not None
                s['part_before'], s['out_before'] = d._part, d._output
                if s['was_proc']:
                    ctx.goal_if('utilization_accumulated', s['busy'] > 0)
            self._orders()

    def before_op(self, i, op):
        if op['k'] in ('shutdown', 'restore'):
            s = self.st.get(op['dev'])
            if s is not None:
                s['cb_before'] = (len(s['sd']), len(s['rs']), s['oper'])

    def after_op(self, i, op):
        ctx = self.ctx
        s = self.st.get(op.get('dev'))
        if s is None or 'cb_before' not in s:
            return
        nsd, nrs, oper = s.pop('cb_before')
        if op['k'] == 'shutdown':
            if oper and self.w.spec_of(op['dev']).get('repair_on_the_spot'):
                ctx.require(len(s['sd']) == nsd + 2 and len(s['rs']) == nrs + 2 and s['oper'],
                            'shutdown() of a machine whose shutdown callback restores it: callbacks not run once each', op['dev'])
            elif oper:
                ctx.require(len(s['sd']) == nsd + 2 and not s['oper'], 'shutdown() of an operational machine did not shut it down once', op['dev'])
            else:
                ctx.goal('repeated_shutdown')
                ctx.require(len(s['sd']) == nsd and len(s['rs']) == nrs, 'repeated shutdown() was not a no-op', op['dev'])
        elif op['k'] == 'restore':
            if not oper:
                ctx.require(len(s['rs']) == nrs + 2 and s['oper'], 'restore_functionality() of a down machine did not restore it once', op['dev'])
                ctx.goal('restored')
            else:
                ctx.goal('repeated_restore')
                ctx.require(len(s['sd']) == nsd and len(s['rs']) == nrs, 'repeated restore was not a no-op', op['dev'])

    def _orders(self):
        """A default work order keeps its target down for exactly the duration reported at start."""
        w, ctx = self.w, self.ctx
        if w.maintainer is None:
            return
        data = w.env.simulation_data
        starts = data.get('start_work_order', {}).get(w.maintainer.name, [])
        fins = data.get('finish_work_order', {}).get(w.maintainer.name, [])
        now = w.now()
        for i, rec in enumerate(starts):
            dev = w.dev.get(rec[1])
            if dev is None or rec[1] not in self.st:
                continue
            dur = ctx.z(dev.wo_durs.get(rec[2], 0)) if isinstance(dev, WProc) else 0
            done = [f for f in fins if f[1] == rec[1] and f[2] == rec[2]]
            # i-th start of this (target, tag) pairs with the i-th finish
            nth = len([r for r in starts[:i] if r[1] == rec[1] and r[2] == rec[2]])
            if nth < len(done):
                ctx.require(ctx.z(done[nth][0]) == ctx.z(rec[0]) + dur, 'work order did not last exactly its duration', rec[1])
                ctx.goal('work_order_finished')
            else:
                ctx.require(now <= ctx.z(rec[0]) + dur, 'work order overdue', rec[1])
                ctx.require(not dev.is_operational(), 'target operational while its work order is in progress', rec[1])
                ctx.goal('work_order_in_progress')


MONITORS.update({'cycle': CycleMon, 'uptime': UptimeMon})


def with_ops(spec, ops, maint=False, durs=None):
    spec = copy.deepcopy(spec)
    spec['ops'] = ops
    if maint:
        spec['devices'].append({'k': 'maintainer', 'name': 'mt', 'capacity': 10})
    if durs:
        for d in spec['devices']:
            if d['k'] == 'proc':
                d['durs'] = durs
    return spec


# =====================================================================================================
# C16 value accounting, C15 recorded data, C04 recurrence, C11 resources
# =====================================================================================================
class ValueMon(Monitor):
    """C16."""

    def attach(self):
        w = self.w
        self.seen = {}       # id(asset) -> number of history entries already checked
        self.initial = {}
        self.supplied = {n: 0 for n in w.order if w.kind[n] == 'source'}
        self.received = {n: 0 for n in w.order if w.kind[n] == 'sink'}
        self.n_sup = dict.fromkeys(self.supplied, 0)
        self.n_rec = dict.fromkeys(self.received, 0)
        self.charged = 0
        self.n_started = 0
        for n in w.order:
            d = w.dev[n]
            if w.kind[n] == 'proc':
                add = self._spec(n).get('addvalue')
                if add is not None:
                    d.add_finish_processing_callback(lambda p, part, a=w.val(add): self._add(part, a))

    def _spec(self, n):
        return next(d for d in self.w.spec['devices'] if d['name'] == n)

    def _add(self, part, a):
        if self.w.probe_depth:
            return
        for leaf in leaves(part):
            leaf.add_value('processing', a)
        self.ctx.goal('value_added_by_processing')

    def after_event(self, ev):
        w, ctx = self.w, self.ctx
        z = ctx.z
        assets = [w.dev[n] for n in w.order] + list(w.generated)
        given = {id(w.dev[n]): w.start_value.get(n, 0) for n in w.order}
        vals = [(a, a.value, given[id(a)] if id(a) in given else getattr(a, 'start_value', a._initial_value), list(a.value_history))
                for a in assets]
        net = w.system.get_net_value_of_assets()
        with ctx.notrace():
            now = w.now()
            total = 0
            for a, value, init, hist in vals:
                run_total = z(init)
                k0 = self.seen.get(id(a), 0)
                for i, e in enumerate(hist):
                    ctx.require(len(e) == 4, 'value history entry is not (label, time, delta, total)', a.name)
                    if i >= k0:
                        ctx.require(z(e[1]) == now, 'value history entry not stamped with the time of the change', a.name)
                        ctx.require(z(e[2]) != 0, 'zero value change recorded', a.name)
                    run_total = run_total + z(e[2])
                    if i >= k0:
                        ctx.require(z(e[3]) == run_total, 'value history running total wrong', a.name)
                self.seen[id(a)] = len(hist)
                ctx.require(z(value) == run_total, 'asset value != starting value + sum of its value history', a.name)
                if a in w.system._assets:
                    total = total + z(value)
            ctx.require(z(net) == total, 'net value of the system != sum over its registered assets')
            data = w.env.simulation_data
            for n in self.supplied:
                src = w.dev[n]
                recs = data.get('supplied_new_part', {}).get(n, [])
                for rec in recs[self.n_sup[n]:]:
                    item = next(p for p in w.items if p.id == rec[1])
                    # value of the supplied item when it left the source = value history of its leaf parts up to that instant
                    for part in leaves(item):
                        v = z(getattr(part, 'start_value', part._initial_value))
                        for e in part.value_history:
                            v = v + ctx.If(z(e[1]) < z(rec[0]), z(e[2]), 0)
                        self.supplied[n] = self.supplied[n] + v
                self.n_sup[n] = len(recs)
                ctx.require(z(src.value) == 0 - self.supplied[n], 'source value != -(summed value of supplied parts)', n)
                ctx.require(z(src.cost_of_produced_parts) == self.supplied[n], 'cost_of_produced_parts != summed value of supplied parts', n)
            for n in self.received:
                snk = w.dev[n]
                recs = data.get('received_part', {}).get(n, [])
                for rec in recs[self.n_rec[n]:]:
                    self.received[n] = self.received[n] + z(rec[3])
                    ctx.goal_if('valuable_part_received', z(rec[3]) != 0)
                self.n_rec[n] = len(recs)
                ctx.require(z(snk.value) == self.received[n], 'sink value != summed value (at receipt) of received parts', n)
                ctx.require(z(snk.value_of_received_parts) == self.received[n], 'value_of_received_parts wrong', n)
            if w.maintainer is not None:
                starts = data.get('start_work_order', {}).get(w.maintainer.name, [])
                for rec in starts[self.n_started:]:
                    dev = w.dev[rec[1]]
                    self.charged = self.charged + z(dev.wo_costs.get(rec[2], 0) if isinstance(dev, WProc) else 0)
                    ctx.goal('work_order_cost_charged')
                self.n_started = len(starts)
                ctx.require(z(w.maintainer.value) == z(w.maintainer._initial_value) - self.charged,
                            'maintainer value != starting value - costs of started orders')
            for n in w.order:
                d = w.dev[n]
                for slot in (getattr(d, '_part', None), getattr(d, '_output', None)):
                    if isinstance(slot, Batch):
                        s = 0
                        for p in leaves(slot):          # nested batches: worth = sum over the leaf parts
                            s = s + z(p.value)
                        ctx.require(ctx.real(lambda: slot.value) == s, 'batch value != sum of its parts', n)
                        ctx.goal('batch_valued')


class DataMon(Monitor):
    """C15."""

    def attach(self):
        w = self.w
        self.recv = {}        # device -> acceptances observed by the receive callback
        self.fin = {}
        self.fails = {}
        self.dispatched = []
        for n in w.order:
            d, k = w.dev[n], w.kind[n]
            if k in ('handler', 'proc', 'buffer', 'sink', 'batcher'):
                self.recv[n] = 0
                d.add_receive_part_callback(self._received)
            if k == 'proc':
                self.fin[n] = 0
                d.add_finish_processing_callback(self._finished)

    def _received(self, dev, part):
        w, ctx = self.w, self.ctx
        if w.probe_depth:
            return
        self.recv[dev.name] += 1
        recs = w.env.simulation_data.get('received_part', {}).get(dev.name, [])
        with ctx.notrace():
            ctx.require(len(recs) == self.recv[dev.name], 'no (or more than one) received_part record for an acceptance', dev.name)
            r = recs[-1]
        v = part.value
        with ctx.notrace():
            ctx.require(ctx.z(r[0]) == w.now() and r[1] == part.id and ctx.z(r[2]) == ctx.z(part.quality) and ctx.z(r[3]) == ctx.z(v),
                        'received_part record != (now, part id, quality, value) at that moment', dev.name)

    def _finished(self, dev, part):
        if self.w.probe_depth:
            return
        self.fin[dev.name] += 1

    def after_event(self, ev):
        w, ctx = self.w, self.ctx
        z = ctx.z
        data = w.env.simulation_data
        self.dispatched.append((z(w.env.now), ev.asset_id, getattr(ev.action, '__name__', '?'), 'cancelled' if ev.cancelled else ''))
        out_vals = {n: (w.dev[n]._output.value if w.dev[n]._output is not None else None) for n in self.fin}
        rm = w.env.resource_manager
        names = set(data.get('resource_update', {})) | set(w.spec.get('pools', {})) | getattr(self, 'pools_touched', set())
        pool = {r: (rm.get_resource_usage(r), rm.get_resource_capacity(r)) for r in names}
        with ctx.notrace():
            now = w.now()
            for n in w.order:
                d, k = w.dev[n], w.kind[n]
                if k == 'buffer':
                    recs = data.get('level', {}).get(n, [])
                    if recs:
                        ctx.require(z(recs[-1][1]) == d.level(), 'last recorded buffer level != buffer level', n)
                        ctx.goal('level_recorded')
                    else:
                        ctx.require(d.level() == 0, 'buffer level changed without a level record', n)
                if n in self.recv:
                    ctx.require(len(data.get('received_part', {}).get(n, [])) == self.recv[n], 'received_part records != acceptances', n)
                if k == 'proc':
                    recs = data.get('produced_part', {}).get(n, [])
                    ctx.require(len(recs) == self.fin[n], 'produced_part records != finished parts', n)
                    fr = data.get('device_failure', {}).get(n, [])
                    if getattr(ev.action, '__name__', '') == '_fail' and getattr(ev.action, '__self__', None) is d and not ev.cancelled:
                        self.fails[n] = self.fails.get(n, 0) + 1
                        ctx.require(len(fr) == self.fails[n] and z(fr[-1][0]) == now, 'no failure record stamped now for a failure', n)
                        ctx.goal('failure_recorded')
                    ctx.require(len(fr) == self.fails.get(n, 0), 'device_failure records != failures', n)
                    if recs and d._output is not None and recs[-1][1] == d._output.id and z(recs[-1][0]) == now:
                        ctx.require(z(recs[-1][3]) == z(out_vals[n]) and z(recs[-1][2]) == z(d._output.quality),
                                    'produced_part record != (part id, quality, value) after processing', n)
                        ctx.goal('produced_recorded')
                if k == 'source':
                    recs = data.get('supplied_new_part', {}).get(n, [])
                    ctx.require(len(recs) == d.produced_parts, 'supplied_new_part records != parts produced by the source', n)
                    if recs:
                        ctx.goal('supplied_recorded')
                if k == 'sink':
                    recs = data.get('received_part', {}).get(n, [])
                    nl = 0
                    for i, r in enumerate(recs):
                        nl += members(d.collected_parts[i]) if i < len(d.collected_parts) else 1
                    ctx.require(d.received_parts_count == nl, 'sink counter != parts in its received records', n)
            for r, (use, cap) in pool.items():
                recs_r = data.get('resource_update', {}).get(r, [])
                if not recs_r:
                    ctx.require(ctx.And(z(cap) == 0, z(use) == 0), 'a pool exists that has no resource_update record', r)
                    continue
                last = recs_r[-1]
                ctx.require(z(last[1]) == z(use) and z(last[2]) == z(cap), 'last resource_update record != pool', r)
                ctx.goal('resource_recorded')
            for n in w.order:
                if w.kind[n] == 'scheduler':
                    recs = data.get('schedule_update', {}).get(n, [])
                    calls = getattr(w, 'sched_calls', [])
                    ctx.require(len(recs) == len(calls), 'schedule_update records != state changes (actions invoked)', n)
                    if recs:
                        ctx.require(z(recs[-1][0]) == z(calls[-1][0]) and recs[-1][1] == calls[-1][1],
                                    'schedule_update record != (time, state) of the change', n)
                        ctx.goal('schedule_recorded')
                    if len(recs) >= 2 and recs[-1][1] == recs[-2][1]:
                        ctx.goal('schedule_change_to_equal_state_recorded')
            if w.maintainer is not None:
                m = w.maintainer.name
                nq, ns, nf = (len(data.get(l, {}).get(m, [])) for l in ('enter_queue', 'start_work_order', 'finish_work_order'))
                ctx.require(ns <= nq and nf <= ns, 'work-order records out of step (start without enter, finish without start)')
                ctx.require(nq == getattr(self, 'accepted', 0), 'enter_queue records != accepted work orders')
                ctx.require(ns - nf == len(w.maintainer._active_requests) - len([e for e in w.env._events
                            if getattr(getattr(e.action, 'func', None), '__name__', '') == '_start_work_order']),
                            'start/finish records out of step with orders in progress')

    def after_op(self, i, op):
        if op['k'] == 'addres':
            self.pools_touched = getattr(self, 'pools_touched', set()) | {op['res']}

    def on_work_order_request(self, dev, tag, ok):
        if ok:
            self.accepted = getattr(self, 'accepted', 0) + 1
            self.ctx.goal('work_order_recorded')

    def at_end(self):
        w, ctx = self.w, self.ctx
        rec = getattr(w, 'trace_recorder', None)
        if rec is None:
            return
        with ctx.notrace():
            ctx.require(len(rec.dumps) == len(w.spec.get('horizons') or [1]), 'trace not exported exactly once per run')
            trace = rec.dumps[-1]
            ctx.require(sorted(trace) == list(range(len(self.dispatched))), 'trace does not list exactly the executed events')
            for i, (t, aid, name, status) in enumerate(self.dispatched):
                e = trace[i]
                ctx.require(ctx.z(e['time']) == t and e['asset_id'] == aid and e['action'] == name,
                            'trace entry != executed event (time, asset, action) in execution order', f'entry {i}')
            ctx.goal('trace_checked')


class Recurrence(Monitor):
    """C04: received_part instants == blocking-after-service recurrence (z3 max-terms)."""

    def at_end(self):
        w, ctx = self.w, self.ctx
        z = ctx.z
        with ctx.notrace():
            st = [d for d in w.spec['devices'] if d['k'] != 'maintainer']
            J = len(st) - 2
            n = st[0]['parts']
            c, K = [], []
            for d in st:
                if d['k'] == 'buffer':
                    c.append(w.zval(d.get('delay', 0)))
                    K.append(d.get('cap') or 10 ** 9)
                else:
                    c.append(w.zval(d.get('cycle', 0)))
                    K.append(1)
            NEG = None
            D = {}

            def get(j, k):
                return D.get((j, k), NEG) if k >= 1 else NEG

            def mx(*xs):
                xs = [x for x in xs if x is not None]
                return ctx.Max(*xs) if len(xs) > 1 else xs[0]
            # the recurrence refers to later stations of earlier parts: fill by part, stations back to front is not
            # possible (needs D(j-1,k)); iterate to a fixed point over (k, j) in an order that respects dependencies:
            # D(j,k) depends on D(j-1,k), D(j,k-1), D(j+1,k-K_{j+1}) -> parts in increasing k, stations in increasing j.
            for k in range(1, n + 1):
                for j in range(0, J + 2):
                    if j == 0:
                        arr = get(0, k - 1) if k > 1 else 0
                    else:
                        arr = get(j - 1, k)
                    if j == J + 1:
                        D[(j, k)] = arr + c[j]              # the sink frees its slot c after receiving
                    else:
                        D[(j, k)] = mx(arr + c[j], get(j, k - 1), get(j + 1, k - K[j + 1]))
            data = w.env.simulation_data.get('received_part', {})
            for j in range(1, J + 2):
                recs = data.get(st[j]['name'], [])
                ctx.require(len(recs) == n, 'station did not receive every part within the horizon', st[j]['name'])
                for k in range(1, n + 1):
                    ctx.require(z(recs[k - 1][0]) == D[(j - 1, k)], 'entry time differs from the blocking-after-service recurrence',
                                f'part {k} entering {st[j]["name"]}')
            ctx.goal('recurrence_matched')
            for j in range(0, J + 1):
                for k in range(2, n + 1):
                    ctx.goal_if('blocked_by_downstream', ctx.And(D[(j, k)] > get(j - 1, k) + c[j] if j else D[(j, k)] > get(0, k - 1) + c[0],
                                                                 D[(j, k)] > get(j, k - 1)))


class ResourceMon(Monitor):
    """C11."""

    def attach(self):
        w = self.w
        self.decl = {}
        for d in w.spec['devices']:
            if d['k'] == 'proc' and d.get('res'):
                self.decl[d['name']] = {r: w.zval(a) for r, a in d['res'].items()}
                w.dev[d['name']].add_receive_part_callback(self._received)
        self.failed_now = set()

    def _received(self, dev, part):
        if self.w.probe_depth:
            return
        self._holds_exactly(dev, 'accepted a part without holding exactly its declared resources')

    def _holds_exactly(self, dev, label):
        ctx = self.ctx
        r = dev._reserved_resources
        ctx.require(r is not None, label, dev.name)
        held = ctx.real(lambda: r.reserved_resources)
        with ctx.notrace():
            want = {k: v for k, v in self.decl[dev.name].items()}
            conds = []
            for k in set(held) | set(want):
                conds.append(held.get(k, 0) == want.get(k, 0))
            ctx.require(ctx.And(*conds), label, dev.name)

    def after_event(self, ev):
        w, ctx = self.w, self.ctx
        rm = w.env.resource_manager
        usage = {}
        for n, decl in self.decl.items():
            d = w.dev[n]
            if d._part is not None:
                self._holds_exactly(d, 'part in process without holding exactly the declared resources')
                ctx.goal('processing_with_resources')
                if not d.is_operational():
                    ctx.goal('resources_kept_through_maintenance')
            if getattr(ev.action, '__name__', '') == '_fail' and getattr(ev.action, '__self__', None) is d and not ev.cancelled:
                ctx.require(d._reserved_resources is None, 'failed processor still holds resources', n)
                ctx.goal('released_on_failure')
            if d._reserved_resources is not None:
                for r, a in decl.items():
                    usage[r] = usage.get(r, 0) + a
        for r, res in getattr(w, 'held', {}).items():
            if res is not None:
                for k, v in ctx.real(lambda: res.reserved_resources).items():
                    usage[k] = usage.get(k, 0) + v
        for r in set(usage) | set(w.spec.get('pools', {})):
            use = ctx.real(lambda: rm.get_resource_usage(r))
            with ctx.notrace():
                use = 0 if (type(use) is float and use == 0.0) else use
                ctx.require(use == usage.get(r, 0), 'pool usage != sum of the requirements of the processors holding reservations', r)

    def before_clock_advance(self):
        w, ctx = self.w, self.ctx
        for n in self.decl:
            d = w.dev[n]
            if d._part is None:
                ctx.require(d._reserved_resources is None,
                            'idle operational processor holds resources while time advances' if d.is_operational() else
                            'processor without a part in process keeps its resources through a shutdown', n)
                ctx.goal('idle_processor_released')


MONITORS.update({'value': ValueMon, 'data': DataMon, 'recurrence': Recurrence, 'resource': ResourceMon})


# =====================================================================================================
# C17 batching, C08 routing
# =====================================================================================================
class BatchMon(Monitor):
    """C17: exact batch sizes, order preserved, no acceptance while unpacking, history reaches contained parts."""

    def attach(self):
        w = self.w
        self.arrived = {}     # batcher -> leaf parts in arrival order
        self.left = {}        # batcher -> leaf parts in leaving order
        self.size = {}
        for n in w.order:
            if w.kind[n] == 'batcher':
                b = w.dev[n]
                self.arrived[n], self.left[n] = [], []
                self.size[n] = b.output_batch_size
                b.add_receive_part_callback(self._in)
                # the devices with a slot that receive what the batcher emits (through gates / pass-through controllers)
                frontier, seen = [b], set()
                while frontier:
                    cur = frontier.pop()
                    for dn in w.order:
                        d = w.dev[dn]
                        if cur in getattr(d, '_upstream', []) and dn not in seen:
                            seen.add(dn)
                            if hasattr(d, 'add_receive_part_callback'):
                                d.add_receive_part_callback(lambda dev, item, n=n: self._out(n, dev, item))
                            else:
                                frontier.append(d)

    def _in(self, bat, item):
        w, ctx = self.w, self.ctx
        if w.probe_depth:
            return
        n = bat.name
        with ctx.notrace():
            pending = len(self.arrived[n]) - len(self.left[n]) - (len(bat._in_progress_batch.parts) if bat._in_progress_batch else 0)
            ctx.require(pending == 0 and bat._output is None,
                        'batcher accepted new input while it had parts left to unpack or an output waiting', n)
            self.arrived[n] += leaves(item)
            if isinstance(item, Batch):
                ctx.goal('batch_unpacked')
                if len(item.parts) == 0:
                    ctx.goal('empty_batch_input')

    def _out(self, n, dev, item):
        w, ctx = self.w, self.ctx
        if w.probe_depth:
            return
        with ctx.notrace():
            size = self.size[n]
            if size is None:
                ctx.require(not isinstance(item, Batch), 'single-part batcher emitted a batch', n)
            else:
                ctx.require(isinstance(item, Batch) and len(item.parts) == size, 'batcher emitted a batch that does not have exactly n parts', n)
                ctx.goal('full_batch_emitted')
            self.left[n] += leaves(item)
            k = len(self.left[n])
            ctx.require(k <= len(self.arrived[n]) and all(a is b for a, b in zip(self.left[n], self.arrived[n])),
                        'parts left the batcher in a different order than they arrived', n)

    def after_event(self, ev):
        w, ctx = self.w, self.ctx
        with ctx.notrace():
            for n in self.arrived:
                b = w.dev[n]
                inside = leaves(b._part) + (list(b._in_progress_batch.parts) if b._in_progress_batch else []) + leaves(b._output)
                gone = len(self.left[n])
                rest = self.arrived[n][gone:]
                # what is still inside, in processing order: output, then batch under construction, then unconsumed input
                order = leaves(b._output) + (list(b._in_progress_batch.parts) if b._in_progress_batch else []) + leaves(b._part)
                ctx.require(len(order) == len(rest) and all(a is c for a, c in zip(order, rest)),
                            'batcher content is not the not-yet-emitted suffix of its input, in order', n)
                if b._in_progress_batch is not None and self.size[n] is not None:
                    ctx.require(len(b._in_progress_batch.parts) < self.size[n], 'batch under construction reached n without being emitted', n)
                    ctx.goal('partial_batch_waiting')
            for snk in w.devices_of('sink'):
                for item in snk.collected_parts:
                    for leaf in leaves(item):
                        names = [d.name for d in leaf.routing_history]
                        if isinstance(item, Batch):
                            ctx.require(names[-1] == snk.name, 'routing history update of a batch did not reach a contained part', snk.name)
                            bh = [d.name for d in item.routing_history]
                            ctx.require(names[len(names) - len(bh):] == bh and names[0] in [x for x in w.order if w.kind[x] == 'source'],
                                        'routing history of a contained part is not its own history followed by the batch\'s',
                                        f'part {names} batch {bh}')
                            ctx.goal('history_reached_contained_part')


class RoutingMon(Monitor):
    """C08."""

    def attach(self):
        w = self.w
        self.visits = {}        # id(part) -> [device names with a slot that accepted it, in order]
        self.hist_len = {}
        self.idle_since = {}
        self.sink_order = {n: [] for n in w.order if w.kind[n] == 'sink'}
        self.toggled = None
        for n in w.order:
            d, k = w.dev[n], w.kind[n]
            if k in ('handler', 'proc', 'buffer', 'sink', 'batcher'):
                d.add_receive_part_callback(self._recv)
                self.idle_since[n] = 0
        self.parallel = self.w.spec.get('idle_longest')      # list of parallel device names or None
        if self.parallel is None:
            # derived from the model: single-slot devices without resource needs fed by exactly the same upstream list, in a
            # model without faults / blocking / rewiring (there "idle since" and the library's bookkeeping legitimately differ)
            spec = w.spec
            quiet = not any(op['k'] in ('shutdown', 'fail', 'armfail', 'restore', 'workorder', 'block', 'unblock', 'rewire', 'setattr')
                            for op in spec.get('ops', []))
            by_up = {}
            for d in spec['devices']:
                if d['k'] in ('handler', 'proc') and d.get('up') and not d.get('res') and not d.get('up_late'):
                    by_up.setdefault(tuple(d['up']), []).append(d['name'])
            sets = [v for v in by_up.values() if len(v) >= 2]
            if quiet and len(sets) == 1 and not spec.get('pools'):
                self.parallel = sets[0]

    def _recv(self, dev, part):
        w, ctx = self.w, self.ctx
        if w.probe_depth:
            return
        n = dev.name
        with ctx.notrace():
            ctx.require(not dev.block_input, 'device received a part while its input was blocked', n)
            for leaf in leaves(part):
                self.visits.setdefault(id(leaf), []).append(n)
            if n in self.sink_order:
                self.sink_order[n].append(part)
            if self.parallel and n in self.parallel:
                now = w.now()
                stale = getattr(self, '_busy', {})

                def since(x):      # a device that was busy after the previous event and is empty now became idle during this one
                    return now if stale.get(x, False) else self.idle_since[x]
                for o in self.parallel:
                    od = w.dev[o]
                    if o != n and od._part is None and od._output is None and od.is_operational() and not od.block_input:
                        ctx.require(since(n) <= since(o),
                                    'part went to a parallel device although another one had been idle longer', f'{n} instead of {o}')
                        ctx.goal_if('idle_longest_decided', since(n) < since(o))

    def before_op(self, i, op):
        if op['k'] in ('block', 'unblock'):
            self.toggled = op['dev']

    def _edges(self):
        w = self.w
        up = {d['name']: list(d.get('up_late') or d.get('up', [])) for d in w.spec['devices']}
        for op in w.spec.get('ops', []):
            if op['k'] == 'rewire':           # connections made at run time (or between two runs) count as configured
                up[op['dev']] = up[op['dev']] + list(op['up'])
        groups = {g['name']: g['devices'] for g in w.spec.get('groups', [])}
        return up, groups

    def after_event(self, ev):
        w, ctx = self.w, self.ctx
        up, groups = self._edges()
        kind = w.kind
        with ctx.notrace():
            now = w.now()
            for n in self.idle_since:
                d = w.dev[n]
                busy = d._part is not None or d._output is not None
                st = getattr(self, '_busy', {})
                if st.get(n, False) and not busy:
                    self.idle_since[n] = now
                st[n] = busy
                self._busy = st
            for part in w.generated:
                hist = [d.name for d in part.routing_history]
                old = self.hist_len.get(id(part), 0)
                for nm in hist[old:]:
                    d = w.dev.get(nm)
                    if d is not None and d.block_input and self.toggled != nm:
                        ctx.fail('part entered a device whose input is blocked', nm)
                self.hist_len[id(part)] = len(hist)
                # walk check with the group-path stack
                stack = []
                prev = None
                slots = []
                for nm in hist:
                    k = kind.get(nm)
                    ctx.require(k is not None, 'routing history names an unknown device', nm)
                    if prev is None:
                        ctx.require(k == 'source', 'routing history does not start at a source', nm)
                    else:
                        pk = kind[prev]
                        ok = prev in up.get(nm, [])
                        if pk == 'path' and stack and stack[-1] == prev:
                            g = next(d['group'] for d in w.spec['devices'] if d['name'] == prev)
                            ok = ok or nm == groups[g][0]
                        cur = prev
                        while not ok and stack:
                            # leaving a group: cur is the group's last device, the part continues downstream of the
                            # innermost path it entered through (which may itself be the last device of an outer group)
                            g = next(d['group'] for d in w.spec['devices'] if d['name'] == stack[-1])
                            if cur != groups[g][-1]:
                                break
                            cur = stack.pop()
                            if cur in up.get(nm, []):
                                ok = True
                                ctx.goal('left_group_through_entry_path')
                        ctx.require(ok, 'routing history is not a walk along configured connections (or leaves a group through '
                                        'another path than it entered)', f'part #{part.idx}: {prev} -> {nm} in {hist}')
                    if k == 'path':
                        stack.append(nm)
                        ctx.goal('entered_group')
                    if k == 'gate':
                        ctx.goal('passed_gate')
                    if k in ('handler', 'proc', 'buffer', 'sink', 'batcher'):
                        slots.append(nm)
                    prev = nm
                # every passage through a gate is backed by its own accepting evaluation of the predicate at that moment
                for g in {nm for nm in hist if kind.get(nm) == 'gate'}:
                    accepted = sum(1 for (gn, pid, v) in w.gate_log if gn == g and pid == id(part) and v)
                    ctx.require(hist.count(g) <= accepted, 'part passed a gate whose predicate rejects it',
                                f'{g}: {hist.count(g)} passages, {accepted} accepting evaluations')
                ctx.require(slots == self.visits.get(id(part), []),
                            'routing history != devices that actually received the part (gap or leftover of a refused hand-over)',
                            f'part #{part.idx}: history {hist} visits {self.visits.get(id(part), [])}')
            for n, order in self.sink_order.items():
                got = w.dev[n].collected_parts
                ctx.require(len(got) == len(order) and all(a is b for a, b in zip(got, order)), 'collected_parts not in arrival order', n)
            self.toggled = None


class DispatchMon(Monitor):
    """C01 on device models: the event the simulator takes is minimal for (time, -priority) among all pending events
    of all devices, the clock equals its time and never decreases."""

    def attach(self):
        self.last_now = 0
        w = self.w
        real_step = w.env.step            # already the harness wrapper: wrap once more around it
        mon = self

        def step():
            ctx = mon.ctx
            with ctx.notrace():
                evs = list(w.env._events)
                head = evs[0]
                conds = []
                for o in evs[1:]:
                    conds.append(ctx.Or(ctx.z(head.time) < ctx.z(o.time),
                                        ctx.And(ctx.z(head.time) == ctx.z(o.time), int(head.event_type) >= int(o.event_type))))
                    if int(head.event_type) == int(o.event_type):
                        ctx.goal_if('device_events_tied', ctx.z(head.time) == ctx.z(o.time))
                if conds:
                    ctx.require(ctx.And(*conds), 'dispatched event is not the minimum for (time, -priority)', getattr(head.action, '__name__', '?'))
                before = ctx.z(w.env.now)
                # a run of duration d executes nothing that is due later than t0 + d
                ctx.require(ctx.z(head.time) <= w.run_end, 'an event due after the end of the run was dispatched',
                            getattr(head.action, '__name__', '?'))
            real_step()
            with ctx.notrace():
                now = ctx.z(w.env.now)
                ctx.require(now == ctx.z(head.time), 'clock != time of the dispatched event')
                ctx.require(now >= before, 'clock went backwards')
                ctx.goal('device_event_dispatched')
        w.env.step = step

    def after_run(self):
        w, ctx = self.w, self.ctx
        with ctx.notrace():
            ctx.require(ctx.z(w.env.now) == w.run_end, 'the run did not end with the clock at t0 + d')
            for e in w.env._events:
                ctx.require(ctx.Or(ctx.z(e.time) > w.run_end, bool(e.cancelled)), 'a live event due within the run was left unexecuted')
            if any(not e.cancelled for e in w.env._events):
                ctx.goal('run_ended_with_events_pending')


MONITORS.update({'batch': BatchMon, 'routing': RoutingMon, 'dispatch': DispatchMon})
