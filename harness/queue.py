"""Harness Q (C01, C07): the real Environment driven by a sequence of queue
operations with symbolic assets, delays, priorities, durations and (free)
tie-break weights, checked online against a 60-line reference queue.

Operation kinds (concrete per analysis):
  S   schedule(asset a in 0..2, now+delay, integer priority 2..11)      params a,d,p
  F   schedule with a fractional custom priority (1.5 / 6.5 / 11.5)     params a,d,k
  X   schedule in the past (now - x, x >= 1): must raise, change nothing  params x
  P/U/C  pause / unpause / cancel(asset a)                                 params a
  T   step() if something is queued
  R   run(d), d >= 0 ; A = run(d) with d >= 1 (advance the clock)          params d
  Ns/Np/Nu/Nc/Nx  schedule a parent event whose action, when it runs, schedules
      a child / pauses / unpauses / cancels asset b / schedules in the past  params a,d,p,b,e
  D   (appended by the C07 jobs) unpause every asset, then drain the queue
"""
import itertools

from simprocesd.model import Environment, EventType

from harness.util import pack, split_by_order

ENCODED = ['Event.__init__', 'Event.execute', 'Event.__lt__', 'Environment.schedule_event', 'Environment.step',
           'Environment.run', 'Environment._terminate', 'Environment.pause_matching_events',
           'Environment.unpause_matching_events', 'Environment.cancel_matching_events',
           'bisect.insort (CrossHair pure-Python replacement)']
ASSUMPTIONS = [
    'S1-free: tie-break weights are unconstrained symbolic ints (equal weights allowed, so the asset-id level of the order is reachable)',
    'times/durations are ints; priorities are built-in integer levels 2..11 (symbolic) or the exact fractions 3/2, 13/2, 23/2 given as fractions.Fraction (a symbolic int against a concrete *float* sends z3 into IEEE reasoning: 60 s per analysis); float priorities are covered by the unbounded order lemma C01-L1; NaN/inf outside',
    'actions do not raise; run() is not called from inside an action',
]
import fractions
FRACTIONS = [fractions.Fraction(3, 2), fractions.Fraction(13, 2), fractions.Fraction(23, 2)]
NASSET = 3
BIG = 10 ** 6


class _Entry:
    __slots__ = ('eid', 'time', 'prio', 'asset', 'action', 'state', 'cancelled', 'paused_at', 'runs', 'born_in_run', 'mine', 'frac')


class _Ref:
    """Reference model of the pending/paused sets.  Structure is concrete per path,
    numbers are z3 terms (symbolic run) or ints (replay)."""

    def __init__(self, ctx):
        self.ctx = ctx
        self.entries = []

    def queued(self):
        return [e for e in self.entries if e.state == 'q']

    def paused(self):
        return [e for e in self.entries if e.state == 'p']


def _param_spec(kind, i):
    if kind == 'S':
        return [[f'a{i}', 0, NASSET - 1], [f'd{i}', 0, BIG], [f'p{i}', 2, 11]]
    if kind == 'F':
        return [[f'a{i}', 0, NASSET - 1], [f'd{i}', 0, BIG], [f'k{i}', 0, 2]]
    if kind == 'X':
        return [[f'x{i}', 1, BIG]]
    if kind in 'PUC':
        return [[f'a{i}', 0, NASSET - 1]]
    if kind == 'R':
        return [[f'd{i}', 0, BIG]]
    if kind == 'A':
        return [[f'd{i}', 1, BIG]]
    if kind[0] == 'N':
        ps = [[f'a{i}', 0, NASSET - 1], [f'd{i}', 0, BIG], [f'p{i}', 2, 11]]
        if kind == 'Ns':
            ps += [[f'b{i}', 0, NASSET - 1], [f'e{i}', 0, BIG]]
        elif kind == 'Nx':
            ps += [[f'e{i}', 1, BIG]]
        else:
            ps += [[f'b{i}', 0, NASSET - 1]]
        return ps
    return []


def _split(s):
    kinds, i = [], 0
    while i < len(s):
        if s[i] == 'N':
            kinds.append(s[i:i + 2])
            i += 2
        else:
            kinds.append(s[i])
            i += 1
    return kinds


def make_sub(name, kinds):
    params = []
    for i, k in enumerate(kinds):
        params += _param_spec(k, i)
    return {'name': name, 'shape': {'ops': list(kinds)}, 'params': params}


# ----------------------------------------------------------------------------------------------
def _valid(seq):
    """Prune sequences whose tail operations cannot have any effect."""
    n_sched = 0
    for k in seq:
        if k in ('S', 'F') or k[0] == 'N':
            n_sched += 1
        elif k in ('P', 'U', 'C', 'T') and n_sched == 0:
            return False
    return n_sched > 0


def jobs(tier, prop):
    subs = []
    if prop == 'C07':
        core = ['S', 'P', 'U', 'C', 'A']
        n = 4 if tier == 'quick' else 5
        for seq in itertools.product(core, repeat=n):
            if seq[0] != 'S' or not _valid(seq) or seq[-1] == 'S' and 0:
                continue
            if not any(k in 'PUC' for k in seq):
                continue
            if n == 5 and (sum(1 for k in seq if k == 'S') > 2 or sum(1 for k in seq if k == 'A') > 2):
                continue     # thorough: at most two events and two clock advances per 5-op sequence (CPU budget)
            sub = make_sub('c07:' + ''.join(seq), ['A'] + list(seq) + ['D'])
            if sum(1 for k in seq if k == 'S') >= 3:
                # three events: equal priorities, so that only times, assets and weights order them
                sub['pre'] = [f'p{i} == 5' for i, k in enumerate(sub['shape']['ops']) if k == 'S']
            subs.append(sub)
        # longer, hand-picked interleavings (pause at non-zero time, late resume); assets and priorities
        # fixed per pick (an event of asset 0 and one of asset 1, equal priorities), times symbolic
        picked = ['SSAPACUA', 'SSPAPAUA', 'SAPSAUSA', 'SSACAPUA', 'SAPAUAPAUA', 'SSAPAUPAUA', 'SNpSAUA', 'SPASPAUA', 'SAPASAPAUA']
        if tier == 'thorough':   # measured 170-400 s of one core each; the heaviest do not exhaust within the 600 s job budget and are reported inconclusive
            picked += ['SSAPASUA', 'SSSAPAUA', 'SNuSAPAA', 'SNcSAPAUA', 'SSSAPASUAUA', 'SSAPSACAUSA', 'SSSAPACAUA']
        for s in picked:
            kinds = _split(s)
            sub = make_sub('c07:pick:' + s, ['A'] + kinds + ['D'])
            nth = 0
            pre = []
            for i, k in enumerate(sub['shape']['ops']):
                if k == 'S' or k[0] == 'N':
                    # picks that pause the same asset twice keep every event on asset 0
                    pre += [f"a{i} == {0 if s in ('SPASPAUA', 'SAPASAPAUA') else nth % 2}", f'p{i} == 5']
                    nth += 1
                    if k[0] == 'N' and k != 'Nx':
                        pre.append(f'b{i} == 0')
                elif k in 'PUC':
                    pre.append(f'a{i} == 0')
            sub['pre'] = pre
            subs.append(sub)
    else:
        core = ['S', 'F', 'X', 'P', 'U', 'C', 'T', 'R', 'Ns', 'Np', 'Nc']
        # quick: every 2-op sequence over the 11 kinds; thorough: those plus every 3-op sequence over 7 kinds
        seqs = [s_ for s_ in itertools.product(core, repeat=2) if _valid(s_)]
        if tier == 'thorough':
            core3 = ['S', 'F', 'P', 'U', 'T', 'R', 'Ns']
            seqs += [s_ for s_ in itertools.product(core3, repeat=3) if _valid(s_) and s_[0] in ('S', 'F', 'Ns')]
        for seq in seqs:
            subs.append(make_sub('c01:' + '.'.join(seq), ['A'] + list(seq) + ['R']))
        picked = [['S', 'S', 'S', 'R'], ['S', 'F', 'S', 'T', 'T', 'T'], ['S', 'S', 'R', 'S', 'R'], ['S', 'Nx', 'R'],
                  ['S', 'Nu', 'P', 'R', 'R'], ['S', 'P', 'A', 'S', 'P', 'A', 'U', 'S', 'R'], ['S', 'P', 'A', 'S', 'P', 'A', 'U', 'T', 'T'],
                  ['S', 'S', 'P', 'R'], ['S', 'S', 'P', 'U', 'R']]
        if tier == 'thorough':   # measured 160-400+ s of one core each
            picked += [['S', 'Ns', 'S', 'R', 'R'], ['S', 'Np', 'S', 'R', 'U', 'R'], ['Ns', 'Ns', 'R'], ['S', 'S', 'P', 'R', 'U', 'R'],
                       ['F', 'F', 'S', 'R'], ['S', 'S', 'S', 'S', 'R'], ['S', 'Ns', 'Ns', 'S', 'R'],
                       ['S', 'S', 'P', 'A', 'U', 'S', 'R'], ['S', 'S', 'S', 'P', 'R', 'U', 'R'],
                       ['Ns', 'Np', 'S', 'S', 'R', 'U', 'R']]
        for kinds in picked:
            sub = make_sub('c01:pick:' + '.'.join(kinds), ['A'] + kinds + ['R'])
            n_ev = sum(1 for k in kinds if k in ('S', 'F') or k[0] == 'N')
            same_asset = kinds[:5] == ['S', 'P', 'A', 'S', 'P']
            if n_ev >= 3 or same_asset:
                # three or more events: assets alternate 0/1 and integer priorities are fixed per event
                # (two equal, one higher), so that times, run lengths and weights carry the symbolic part
                nth, pre = 0, []
                for i, k in enumerate(sub['shape']['ops']):
                    if k in ('S', 'F') or k[0] == 'N':
                        pre.append(f'a{i} == {0 if same_asset else nth % 2}')
                        if k != 'F':
                            pre.append(f'p{i} == {[5, 5, 7, 5][nth % 4]}')
                        if k[0] == 'N' and k not in ('Nx',):
                            pre.append(f'b{i} == 0')
                        nth += 1
                    elif k in 'PUC':
                        pre.append(f'a{i} == 0')
                sub['pre'] = pre
            subs.append(sub)
    # analyses with three or more scheduled events are split by the order pattern of their first delays
    expanded = []
    for sub in subs:
        ds = [f'd{i}' for i, k in enumerate(sub['shape']['ops']) if k in ('S', 'F') or k[0] == 'N']
        if len(ds) >= 3 and 'pick' not in sub['name']:
            expanded += split_by_order(sub, [(ds[0], ds[1]), (ds[1], ds[2])])
        else:
            expanded.append(sub)
    subs = expanded

    def weight(sub):
        ops = sub['shape']['ops']
        n_ev = sum(1 for k in ops if k in ('S', 'F') or k[0] == 'N') + sum(1 for k in ops if k in 'RA')
        return len(ops) * 3.0 ** n_ev / (8.0 if sub.get('pre') else 1.0)
    return pack(subs, 64, weight, f'{prop.lower()}-q', weights='free',
                timeout=240 if tier == 'quick' else 300)


def bounds_text(tier, prop):
    if prop == 'C07':
        n = 4 if tier == 'quick' else 5
        return (f'after advancing the clock by a symbolic d>=1: every sequence of {n} operations from '
                f'{{schedule, pause, unpause, cancel, advance(d>=1)}} that starts with a schedule and contains a '
                f'pause/unpause/cancel (5-op sequences: at most two schedules and two advances), followed by unpause-all and a drain; plus hand-picked sequences of 8-11 operations; '
                f'3 asset ids, assets/delays/priorities/durations symbolic, tie-break weights free')
    n = '2' if tier == 'quick' else '2 (and of 3 over {schedule, fractional schedule, pause, unpause, step, run, parent-schedules} starting with a schedule)'
    return (f'after advancing the clock by a symbolic d>=1: every sequence of {n} operations from {{schedule (integer or '
            f'fractional priority), schedule-in-the-past, pause, unpause, cancel, step, run(d), parent events whose action '
            f'schedules / pauses / cancels}} followed by run(d); plus hand-picked sequences of 3-7 operations incl. '
            f'split runs and nested unpause / past-scheduling; 3 asset ids; all numbers symbolic, weights free')


def required_goals(tier, prop):
    if prop == 'C07':
        return ['unpause_shift', 'cancel_paused', 'unpause_of_cancelled', 'double_pause', 'schedule_while_paused',
                'withheld_while_others_ran', 'resumed_event_ran']
    return ['tie_time_diff_prio', 'tie_time_prio', 'past_rejected', 'run_boundary_event', 'created_during_run_ran',
            'fraction_prio', 'tombstone_popped', 'later_event_left_after_run']


def signature(failure):
    return failure['label']


# ----------------------------------------------------------------------------------------------
def run(shape, args, ctx):
    env = Environment()
    ref = _Ref(ctx)
    log = []                       # (eid) in execution order
    z = ctx.z
    state = {'in_run': 0, 'popped': 0}
    real_schedule = env.schedule_event
    real_step = env.step

    def register(time, asset, action, prio):
        e = _Entry()
        e.eid = len(ref.entries)
        e.time, e.prio, e.asset, e.action = z(time), z(prio), z(asset), action
        e.state, e.cancelled, e.paused_at, e.runs = 'q', False, None, 0
        e.born_in_run = state['in_run'] > 0
        e.mine = getattr(action, '_harness', False)
        ref.entries.append(e)
        return e

    def schedule(time, asset_id, action, event_type=EventType.OTHER_LOW_PRIORITY, message=''):
        real_schedule(time, asset_id, action, event_type, message)
        with ctx.notrace():
            # reference priorities are kept doubled, so that the fractional ones are integers too
            if type(event_type) is EventType:
                pr = 2 * int(event_type)
            elif type(event_type) is fractions.Fraction:
                pr = int(event_type * 2)
                ctx.goal('fraction_prio_scheduled')
            else:
                pr = 2 * z(event_type)
            e = register(time, asset_id, action, pr)
            e.frac = type(event_type) is fractions.Fraction
            if any(o.state == 'p' for o in ref.entries):
                ctx.goal('schedule_while_paused')
        return e
    env.schedule_event = schedule

    def consistent(where):
        """The real pending / paused lists hold exactly the reference's entries, with the reference's times."""
        with ctx.notrace():
            for real, want, nm in ((env._events, ref.queued(), 'pending'), (env._paused_events, ref.paused(), 'paused')):
                ctx.require(len(real) == len(want), f'{nm} set differs from reference', where)
                by_action = {id(e.action): e for e in want}
                conds = []
                for ev in real:
                    e = by_action.get(id(ev.action))
                    ctx.require(e is not None, f'{nm} set differs from reference', where)
                    conds.append(z(ev.time) == e.time)
                    ctx.require(bool(ev.cancelled) == e.cancelled, 'cancel flag differs from reference', where)
                if conds:
                    ctx.require(ctx.And(*conds), f'{nm} event time differs from reference (remaining delay not preserved)', where)

    def step():
        with ctx.notrace():
            ctx.count('events')
            head = env._events[0]
            now_before = z(env.now)
            q = ref.queued()
            taken = next((e for e in q if e.action is head.action), None)
            ctx.require(taken is not None, 'dispatched an event that is not pending', 'head of the queue is unknown/paused')
            conds = []
            for o in q:
                if o is not taken:
                    conds.append(ctx.Or(taken.time < o.time, ctx.And(taken.time == o.time, taken.prio >= o.prio)))
                    ctx.goal_if('tie_time_diff_prio', ctx.And(taken.time == o.time, taken.prio > o.prio))
                    ctx.goal_if('tie_time_prio', ctx.And(taken.time == o.time, taken.prio == o.prio))
            if conds:
                ctx.require(ctx.And(*conds), 'dispatched event is not the minimum for (time, -priority)', f'event {taken.eid}')
            if taken.frac:
                ctx.goal('fraction_prio')
            if any(o.state == 'p' for o in ref.entries):
                ctx.goal('withheld_while_others_ran')
            n_log = len(log)
            taken.state = 'x'
        real_step()
        with ctx.notrace():
            now = z(env.now)
            ctx.require(now == taken.time, 'clock != time of the dispatched event', f'event {taken.eid}')
            ctx.require(now >= now_before, 'clock went backwards', f'event {taken.eid}')
            if taken.cancelled:
                ctx.goal('tombstone_popped')
                ctx.require(len(log) == n_log, 'cancelled event ran', f'event {taken.eid}')
            elif taken.mine:
                ctx.require(len(log) == n_log + 1 and log[-1] == taken.eid, 'action did not run exactly once at dispatch',
                            f'event {taken.eid}')
                if taken.paused_at is not None:
                    ctx.goal('resumed_event_ran')
                if taken.born_in_run and state['in_run']:
                    ctx.goal('created_during_run_ran')
        consistent('after step')
    env.step = step

    def pause(a):
        env.pause_matching_events(a)
        with ctx.notrace():
            za, now = z(a), z(env.now)
            for e in ref.entries:
                if e.state == 'p':
                    ctx.goal_if('double_pause', e.asset == za)
                if e.state == 'q' and ctx.decide(e.asset == za):
                    e.state, e.paused_at = 'p', now

    def unpause(a):
        env.unpause_matching_events(a)
        with ctx.notrace():
            za, now = z(a), z(env.now)
            for e in ref.entries:
                if e.state == 'p' and ctx.decide(e.asset == za):
                    ctx.goal_if('unpause_shift', ctx.And(e.paused_at > 0, now > e.paused_at))
                    if e.cancelled:
                        ctx.goal('unpause_of_cancelled')
                    e.state = 'q'
                    e.time = e.time + (now - e.paused_at)

    def cancel(a):
        env.cancel_matching_events(a)
        with ctx.notrace():
            za = z(a)
            for e in ref.entries:
                if e.state in 'qp' and not e.cancelled and ctx.decide(e.asset == za):
                    if e.state == 'p':
                        ctx.goal('cancel_paused')
                    e.cancelled = True

    def mk_action(extra=None):
        holder = {}

        def action():
            e = holder['e']
            e.runs += 1
            log.append(e.eid)
            if extra:
                extra()
        action._harness = True
        return action, holder

    def sched_op(asset, delay, prio, extra=None, must_accept=True):
        action, holder = mk_action(extra)
        try:
            holder['e'] = env.schedule_event(env.now + delay, asset, action, prio)
        except ValueError:
            ctx.fail('schedule at now+delay with delay >= 0 was rejected')

    def past_op(x):
        n_q = len(env._events)
        try:
            real_schedule(env.now - x, 0, lambda: None, EventType.OTHER_LOW_PRIORITY)
        except ValueError:
            ctx.goal('past_rejected')
            ctx.require(len(env._events) == n_q, 'rejected schedule changed the queue')
            return
        ctx.fail('scheduling before the current time was accepted')

    def do_run(d):
        t0 = z(env.now)
        zd = z(d)
        before = set(id(e) for e in ref.entries)
        state['in_run'] += 1
        env.run(d)
        state['in_run'] -= 1
        with ctx.notrace():
            end = t0 + zd
            ctx.require(z(env.now) == end, 'run(d) did not end with the clock at t0+d')
            conds = []
            for e in ref.entries:
                if e.state == 'q':
                    # still pending after the run: must be due later than t0+d
                    conds.append(e.time > end)
                    ctx.goal('later_event_left_after_run')
                elif e.state == 'x' and e.runs and id(e) in before:
                    ctx.goal_if('run_boundary_event', e.time == end)
            if conds:
                ctx.require(ctx.And(*conds), 'run(d) left a live event due no later than t0+d unexecuted')
            for e in ref.entries:
                ctx.require(e.runs <= 1, 'an action ran twice', f'event {e.eid}')

    for i, kind in enumerate(shape['ops']):
        ctx.count('ops')
        g = lambda n: args[f'{n}{i}']
        if kind == 'S':
            sched_op(g('a'), g('d'), g('p'))
        elif kind == 'F':
            sched_op(g('a'), g('d'), FRACTIONS[g('k')])
        elif kind == 'X':
            past_op(g('x'))
        elif kind == 'P':
            pause(g('a'))
        elif kind == 'U':
            unpause(g('a'))
        elif kind == 'C':
            cancel(g('a'))
        elif kind == 'T':
            if env._events:
                env.step()
        elif kind in ('R', 'A'):
            do_run(g('d'))
        elif kind == 'Ns':
            b, e_ = g('b'), g('e')
            sched_op(g('a'), g('d'), g('p'), extra=lambda b=b, e_=e_: sched_op(b, e_, EventType.PASS_PART))
        elif kind == 'Np':
            b = g('b')
            sched_op(g('a'), g('d'), g('p'), extra=lambda b=b: pause(b))
        elif kind == 'Nu':
            b = g('b')
            sched_op(g('a'), g('d'), g('p'), extra=lambda b=b: unpause(b))
        elif kind == 'Nc':
            b = g('b')
            sched_op(g('a'), g('d'), g('p'), extra=lambda b=b: cancel(b))
        elif kind == 'Nx':
            e_ = g('e')
            sched_op(g('a'), g('d'), g('p'), extra=lambda e_=e_: past_op(e_))
        elif kind == 'D':
            for _round in range(4):   # a parent event may pause again while draining
                for a in range(NASSET):
                    unpause(a)
                consistent('after unpause-all')
                while env._events:
                    env.step()
                if not env._paused_events:
                    break
            with ctx.notrace():
                for e in ref.entries:
                    # every event that was never cancelled has run exactly once by now, cancelled ones never
                    if e.cancelled:
                        ctx.require(e.runs == 0, 'cancelled event ran', f'event {e.eid}')
                    elif e.mine:
                        ctx.require(e.runs == 1, 'live event did not run exactly once', f'event {e.eid}')
        consistent(f'after op {i} {kind}')
