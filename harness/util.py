"""Shared helpers for harness modules."""


def pack(subs, njobs, weight, name_prefix, **job_fields):
    """Distribute analyses over at most njobs worker processes, heaviest first (LPT)."""
    order = sorted(subs, key=lambda s: -weight(s))
    bins = [[0.0, []] for _ in range(min(njobs, max(1, len(order))))]
    for s in order:
        b = min(bins, key=lambda b: b[0])
        b[0] += weight(s)
        b[1].append(s)
    out = []
    for j, (w, chunk) in enumerate(bins):
        if chunk:
            out.append(dict(job_fields, name=f'{name_prefix}{j:03d}', subs=chunk))
    return out


def split_by_order(sub, pairs):
    """Case split of one analysis into the 3**len(pairs) order patterns of the given
    parameter pairs (x < y, x == y, x > y): the union is the original analysis."""
    import itertools
    out = []
    import re
    fixed = sub.get('fixed', {})

    def fx(expr):
        for n, v in fixed.items():
            expr = re.sub(rf'\b{n}\b', str(v), expr)
        return expr
    for pat in itertools.product(('<', '==', '>'), repeat=len(pairs)):
        pre = list(sub.get('pre', [])) + [fx(f'{x} {op} {y}') for (x, y), op in zip(pairs, pat)]
        tag = ''.join({'<': 'l', '==': 'e', '>': 'g'}[o] for o in pat)
        out.append(dict(sub, name=f"{sub['name']}#{tag}", pre=pre, may_be_empty=True))
    return out
