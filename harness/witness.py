"""Concrete scenarios run on solver-chosen floating-point witnesses (engine/kernels.py: C12-W1, ...).

The CrossHair analyses work on the integer grid, where float rounding cannot show.  For the few places where the
repository does *running* float arithmetic on user-given numbers, a solver (z3, QF_FP) is asked for doubles on which
the rounding matters, and the real classes are run on exactly those numbers.  These functions are ordinary harness
entry points (`run(shape, args, ctx)`), so a violation found here is replayed by `./check <id> --replay <file>` like
any other counterexample.  They never run under CrossHair."""


def _c12_residue(shape, args, ctx):
    """Maintainer(capacity C); orders A (needs a) and B (needs b) overlap and finish (A first if shape['first']=='a');
    afterwards, with nothing in progress, an order X needing the *whole* capacity C is requested.  It fits (nothing is
    in use), so it must start at the instant it is requested and finish its duration later."""
    from simprocesd.model import System
    from simprocesd.model.factory_floor import Maintainer, Maintainable
    from simprocesd.model.simulation import EventType
    a, b = args['a'], args['b']
    cap = 2 * (a + b)
    log = []

    class Target(Maintainable):
        def __init__(self, name, need, dur):
            self.name, self.need, self.dur = name, need, dur

        def get_work_order_duration(self, tag):
            return self.dur

        def get_work_order_capacity(self, tag):
            return self.need

        def get_work_order_cost(self, tag):
            return 0

        def start_work(self, tag):
            log.append(('start', self.name, env.now))

        def end_work(self, tag):
            log.append(('end', self.name, env.now))

    system = System()
    m = Maintainer(name='mt', capacity=cap)
    first_a = shape.get('first', 'a') == 'a'
    ta = Target('A', a, 1 if first_a else 2)
    tb = Target('B', b, 2 if first_a else 1)
    tx = Target('X', cap, 1)
    system.simulate(0, print_summary=False)
    env = system._env
    answers = {}
    for t, tgt in ((1, ta), (1, tb), (5, tx)):
        env.schedule_event(t, -5, (lambda tgt=tgt: answers.__setitem__(tgt.name, m.create_work_order(tgt))), EventType.OTHER_HIGH_PRIORITY)
    system.simulate(20, print_summary=False)
    ctx.goal('two_orders_overlapped')
    ctx.require(answers == {'A': True, 'B': True, 'X': True}, 'create_work_order return value differs from the reference', str(answers))
    ev = {(k, n): t for k, n, t in log}
    ctx.require(ev.get(('start', 'A')) == 1 and ev.get(('start', 'B')) == 1,
                'an order that fits with a free target did not start when requested', f'a={a!r} b={b!r} capacity={cap!r} log={log}')
    ctx.require(ev.get(('start', 'X')) == 5,
                'a queued order that fits and whose target is free is left waiting while time advances',
                f'idle maintainer of capacity {cap!r} (earlier orders needed {a!r} and {b!r}, both finished); an order needing {cap!r} '
                f'requested at t=5 never started; capacity in use reported as {m.total_capacity - m.available_capacity!r}, '
                f'internal running sum {getattr(m, "_utilization", None)!r}; log={log}')
    ctx.require(ev.get(('end', 'X')) == 6 and len(log) == 6, 'start/end hooks not called once each', str(log))
    ctx.require(m.available_capacity == m.total_capacity, 'available_capacity != capacity - sum of active orders', repr(m.available_capacity))


def _c19_interval(shape, args, ctx):
    """PeriodicSensor with a float interval: the k-th measurement must lie at the k-fold repeated addition."""
    from simprocesd.model import System
    from simprocesd.model.sensors import PeriodicSensor, AttributeProbe
    w = args['interval']

    class _O:
        x = 1
    system = System()
    ps = PeriodicSensor(w, [AttributeProbe('x', _O())], name='ps')
    seen = []
    ps.add_on_sense_callback(lambda sns, t, d: seen.append(t))
    system.simulate(w * 9.5, print_summary=False)
    want, acc = [], 0
    for _ in range(len(seen)):
        acc = acc + w
        want.append(acc)
    ctx.require(len(seen) >= 8, 'periodic sensor took fewer measurements than intervals elapsed', f'interval={w!r}: {seen}')
    ctx.require(seen == want and list(ps.data['time']) == want,
                'k-th measurement is not at the k-fold repeated addition of the interval',
                f'interval={w!r}: sampled at {seen[:9]} instead of {want[:9]}')


def _c09_residue(shape, args, ctx):
    """Pool r of capacity C; reservations of a and b are taken and released again (a first if shape['first']=='a').  With
    nothing outstanding the usage must be 0 (= the sum over outstanding reservations) and a request for the whole capacity
    must be granted (it fits into capacity minus usage)."""
    from simprocesd.model import System
    a, b, cap = args['a'], args['b'], args['cap']
    system = System()
    system.simulate(0, print_summary=False)
    rm = system.resource_manager
    rm.add_resources('r', cap)
    ra = rm.reserve_resources({'r': a})
    rb = rm.reserve_resources({'r': b})
    ctx.require(ra is not None and rb is not None, 'a reservation that fits was refused', f'cap={cap!r} a={a!r} b={b!r}')
    ctx.goal('two_reservations_outstanding')
    for r in ((ra, rb) if shape.get('first', 'a') == 'a' else (rb, ra)):
        r.release()
    usage = rm.get_resource_usage('r')
    rx = rm.reserve_resources({'r': cap})
    ctx.require(usage == 0, 'usage of a resource differs from the sum of the amounts held by outstanding reservations (float residue)',
                f'pool of capacity {cap!r}: reservations of {a!r} and {b!r} were taken and released in full, nothing is outstanding, '
                f'usage is {usage!r}; a request for the whole capacity is then ' + ('granted' if rx is not None else 'REFUSED'))
    ctx.require(rx is not None, 'a reservation that fits into capacity minus usage was refused',
                f'idle pool of capacity {cap!r} (usage {usage!r} after releasing {a!r} and {b!r}) refused a request for {cap!r}')


def _c15_records(shape, args, ctx):
    """Fractional reservations a and b on a pool of capacity C, taken and released one after the other: after every operation
    the last 'resource_update' record of the pool must equal (now, usage, capacity) as the pool reports them."""
    from simprocesd.model import System
    a, b, cap = args['a'], args['b'], args['cap']
    system = System()
    system.simulate(0, print_summary=False)
    rm = system.resource_manager

    def check(after):
        recs = system.simulation_data.get('resource_update', {}).get('r', [])
        live = (system._env.now,
                rm.get_resource_usage('r'), rm.get_resource_capacity('r'))
        ctx.require(len(recs) > 0 and tuple(recs[-1]) == live, 'last resource_update record != pool',
                    f'after {after}: record {tuple(recs[-1]) if recs else None!r}, pool {live!r} (amounts {a!r}, {b!r}, capacity {cap!r})')
    rm.add_resources('r', cap)
    check('add_resources')
    ra = rm.reserve_resources({'r': a})
    check('first reservation')
    rb = rm.reserve_resources({'r': b})
    ctx.require(ra is not None and rb is not None, 'a reservation that fits was refused', f'cap={cap!r} a={a!r} b={b!r}')
    check('second reservation')
    ctx.goal('two_fractional_reservations_recorded')
    ra.release()
    check('first release')
    rb.release()
    check('second release')


KINDS = {'c15_records': _c15_records, 'c09_residue': _c09_residue, 'c12_residue': _c12_residue, 'c19_interval': _c19_interval}


def run(shape, args, ctx):
    return KINDS[shape['kind']](shape, args, ctx)
