#!/bin/sh
# Offline bootstrap of the overlay venv: /venv (repo deps, simprocesd editable) + crosshair-tool from the wheelhouse.
set -e
cd "$(dirname "$0")"
if [ ! -x .venv/bin/python ] || ! .venv/bin/python -c "import crosshair, z3, simprocesd" 2>/dev/null; then
  rm -rf .venv
  /venv/bin/python -m venv .venv
  echo "import site; site.addsitedir('/venv/lib/python3.12/site-packages')" > .venv/lib/python3.12/site-packages/_overlay.pth
  PIP_NO_INDEX=1 .venv/bin/pip install -q --no-index --find-links /opt/veriftools/wheels crosshair-tool
fi
.venv/bin/python -c "import crosshair, z3, simprocesd; print('verif venv ok: crosshair', crosshair.__version__, 'z3', z3.get_version_string())"
