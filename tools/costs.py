#!/usr/bin/env python3
"""Regenerates harness/costs.json from the per-analysis statistics of the evidence files (run after a full quick run on the
unchanged tree).  The table only steers scheduling: which models of other properties are cheap enough for the quick cross pool
and how analyses are packed into worker processes.  It never decides a verdict; a missing table only makes the quick tier smaller."""
import collections
import glob
import json
import os

ROOT = os.path.dirname(os.path.dirname(os.path.abspath(__file__)))
costs = {}
for f in sorted(glob.glob(os.path.join(ROOT, 'evidence', '*.json'))):
    e = json.load(open(f))
    if e.get('tier') != 'quick':
        continue
    base, exact = collections.defaultdict(float), {}
    for a in e['coverage'].get('per_analysis') or []:
        if a['name'].startswith('x') and ':' in a['name'][:5]:
            continue                      # cross-pool analyses are costed where they are owned
        exact[a['name']] = a['cpu_s'] or 0
        b = a['name'].split('#')[0]
        if b.endswith('-fifo'):
            b = b[:-5]
        base[b] += a['cpu_s'] or 0
    if exact:
        costs[e['property_id']] = {'base': {k: round(v, 1) for k, v in base.items()}, 'exact': exact}
json.dump(costs, open(os.path.join(ROOT, 'harness', 'costs.json'), 'w'), indent=0, sort_keys=True)
print({k: len(v['exact']) for k, v in costs.items()})
