#!/usr/bin/env python3
"""Regenerates /verif/MANIFEST.json from engine/registry.py (run from /verif)."""
import json
import os
import sys

ROOT = os.path.dirname(os.path.dirname(os.path.abspath(__file__)))
sys.path.insert(0, ROOT)
from engine.registry import CHECKS, NOT_APPLICABLE, HOOK_COMMITS  # noqa: E402

props = [json.loads(l)['id'] for l in open(os.path.join(ROOT, 'properties.jsonl'))]

BASE_NOTE = ('Trusted base: CrossHair 0.0.110 (its models of list/dict/sorted/bisect/copy/functools), z3 5.1.0, '
             'the harness, monitors and reference code under /verif, stubs S1-S7 of DESIGN.md 4.3. Result holds only '
             'within the stated bounds (evidence coverage.bounds); integer-valued times; IEEE rounding outside.')

checks = []
for pid in props:
    if pid not in CHECKS:
        continue
    c = CHECKS[pid]
    checks.append({
        'property_id': pid,
        'quick_cmd': f'./check {pid} --tier quick',
        'thorough_cmd': f'./check {pid} --tier thorough',
        'evidence_file': f'/verif/evidence/{pid}.json',
        'replay_cmd_template': f'./check {pid} --replay {{path}}',
        'engine': 'symrun',
        'level_claimed': {
            'category': 'model_checking',
            'text': c['text'],
            'design_ref': c.get('design_ref', 'DESIGN.md section 6 / ' + pid),
        },
        'level_note': c.get('note', BASE_NOTE),
        'technique': c.get('technique', 'bounded symbolic execution of the real classes (CrossHair + z3), '
                                        'exhaustive over ordering classes within the bound; counterexamples replayed on CPython'),
    })

manifest = {
    'version': 1,
    'setup_cmd': 'sh ./setup.sh',
    'hooks': {
        'guard': 'SIMPROCESD_VERIF',
        'enable': 'none needed: all observation is done from outside the repository (wrapping Environment.step / '
                  'rebinding module-level names inside the checking process); no hook code exists in /repo',
        'baseline_off_cmd': 'cd /repo && /venv/bin/python -m pytest -ra -q -p no:cacheprovider --timeout=900 '
                            '--continue-on-collection-errors',
        'source_commits': HOOK_COMMITS,
        'add_only': True,
    },
    'engines': [
        {'name': 'symrun', 'path': '/verif/engine',
         'serves_properties': [c['property_id'] for c in checks],
         'kind_free_text': 'Engine A: per-job CrossHair/z3 symbolic execution of the real simprocesd classes with symbolic '
                           'times/amounts/tie-break weights and online monitors; Engine B (engine/kernels.py): AST->SMT '
                           'translation of loop-free kernels, single validity queries (z3, cvc5)'}],
    'checks': checks,
    'notes': 'Exit codes: 0 held / 1 VIOLATION (replayed) / 3 harness error. INCONCLUSIVE lines name jobs whose search '
             'tree was not exhausted within the CPU budget; they are never counted as success (evidence exhaustive:false).',
    'not_applicable': [{'property_id': p, 'reason': NOT_APPLICABLE.get(p, 'check not built yet in this revision')}
                       for p in props if p not in CHECKS],
}
with open(os.path.join(ROOT, 'MANIFEST.json'), 'w') as f:
    json.dump(manifest, f, indent=1)
print('MANIFEST.json:', len(checks), 'checks,', len(manifest['not_applicable']), 'not applicable')
try:
    import jsonschema
    jsonschema.validate(manifest, json.load(open('/root/.vp/MANIFEST.schema.json')))
    print('schema ok')
except ImportError:
    pass
