"""Developer aid: run only the analyses of a property whose name contains a pattern.

usage: python3 tools/one.py <PROP> <tier> <pattern> [repo]

Prints, per matching job, the verdict, paths, goals and the first failure.  Not registered in
MANIFEST.json; it uses the same workers as ./check.
"""
import importlib
import inspect
import json
import os
import shutil
import sys
import tempfile

ROOT = os.path.dirname(os.path.dirname(os.path.abspath(__file__)))
sys.path.insert(0, ROOT)


def main():
    prop, tier, pat = sys.argv[1:4]
    if len(sys.argv) > 4:
        os.environ['VERIF_REPO'] = sys.argv[4]
    from engine import symrun, registry
    from multiprocessing.pool import ThreadPool
    jobs = []
    for hn in registry.CHECKS[prop]['harnesses']:
        mod = importlib.import_module(hn)
        js = mod.jobs(tier, prop) if len(inspect.signature(mod.jobs).parameters) > 1 else mod.jobs(tier)
        for j in js:
            subs = [s for s in j.get('subs', []) if pat in s['name']]
            if subs:
                j = dict(j, harness=hn)
                j['subs'] = [dict(sb, shape=dict(sb.get('shape', {}), prop=prop)) for sb in subs]
                jobs.append(j)
    wd = tempfile.mkdtemp(prefix='one-')
    try:
        with ThreadPool(symrun.NPROC) as pool:
            for r in pool.imap_unordered(lambda j: symrun.run_job(j, wd), jobs):
                print(r['job'], r['verdict'], 'paths', r['paths'], 'wall', r['wall_s'])
                for s in r.get('subs', []):
                    print('   ', s.get('name'), s.get('verdict'), s.get('paths'))
                print('    goals', json.dumps(r.get('goal_counts', {})))
                if r.get('failure'):
                    f = r['failure']
                    print('    FAILURE', f.get('label'), f.get('detail'), f.get('args'), f.get('sub'))
                for m in r.get('messages', [])[:3]:
                    print('    msg', m.get('state'), str(m.get('message'))[:300])
    finally:
        shutil.rmtree(wd, ignore_errors=True)


main()
