#!/bin/sh
# usage: sh tools/one.sh <PROP> <tier> <pattern> [repo]   (developer aid, see tools/one.py)
cd "$(dirname "$0")/.." || exit 3
R="${4:-/repo}"
VERIF_REPO="$R" PYTHONPATH="$(pwd):$R" exec /venv/bin/python tools/one.py "$@"
