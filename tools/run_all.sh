#!/bin/sh
# usage: tools/run_all.sh quick|thorough [PROP ...]   -- runs the checks one after another, prints a one-line summary each
tier=$1; shift
props="$@"
[ -z "$props" ] && props="C01 C02 C03 C04 C05 C06 C07 C08 C09 C10 C11 C12 C13 C14 C15 C16 C17 C18 C19 C20"
for p in $props; do
  start=$(date +%s)
  ./check $p --tier $tier > /tmp/run_all_$p.log 2>&1; rc=$?
  end=$(date +%s)
  echo "$p rc=$rc $((end-start))s $(grep -c '^INCONCLUSIVE' /tmp/run_all_$p.log) inconclusive | $(tail -1 /tmp/run_all_$p.log | cut -c1-220)"
  grep -E "^VIOLATION|^HARNESS|^KNOWN" /tmp/run_all_$p.log | head -3
done
