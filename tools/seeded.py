#!/usr/bin/env python3
"""Confirm a seeded change produced by an independent sub-agent and run the checks against it.

usage: tools/seeded.py <PROP> [--tier quick|thorough] [--check PROP2 ...]
Expects the agent's scratch worktree at /tmp/mut/<PROP> (change applied) with _out/{patch.diff,demo.py,meta.json}.
Steps: (1) existing test-suite with the change, (2) demo fails with / passes without the change,
(3) copy to /verif/seeded/<PROP>-<n>/, (4) run ./check with VERIF_REPO=<worktree> and record the verdict.
"""
import json
import os
import shutil
import subprocess
import sys
import time

ROOT = os.path.dirname(os.path.dirname(os.path.abspath(__file__)))


def sh(cmd, **kw):
    return subprocess.run(cmd, shell=True, capture_output=True, text=True, **kw)


def main():
    args = sys.argv[1:]
    tier = 'quick'
    if '--tier' in args:
        i = args.index('--tier')
        tier = args[i + 1]
        del args[i:i + 2]
    checks = None
    if '--check' in args:
        i = args.index('--check')
        checks = args[i + 1:]
        del args[i:]
    name = args[0]
    prop = name.split('-')[0]
    wt = f'/tmp/mut/{name}'
    out = f'{wt}/_out'
    meta = json.load(open(f'{out}/meta.json'))
    ran = {}
    t = sh('/venv/bin/python -m pytest -q -p no:cacheprovider --timeout=900 --continue-on-collection-errors 2>&1 | tail -1', cwd=wt)
    ran['tests_with_change'] = t.stdout.strip()
    demo = f'PYTHONPATH={wt} /venv/bin/python _out/demo.py'
    d1 = sh(demo, cwd=wt)
    ran['demo_with_change_rc'] = d1.returncode
    # the worktree must carry exactly the agent's patch
    cur = sh(f'git -C {wt} diff -- simprocesd').stdout
    ran['worktree_diff_matches_patch'] = cur.strip() == open(f'{out}/patch.diff').read().strip()
    open(f'{out}/_current.diff', 'w').write(cur)
    r1 = sh(f'git -C {wt} apply -R _out/_current.diff')
    d0 = sh(demo, cwd=wt)
    ran['demo_without_change_rc'] = d0.returncode
    r2 = sh(f'git -C {wt} apply _out/_current.diff')
    ran['patch_reapplied'] = (r1.returncode == 0 and r2.returncode == 0)
    ok = ('150 passed' in ran['tests_with_change']) and d1.returncode == 1 and d0.returncode == 0 and ran['patch_reapplied']
    ran['confirmed'] = ok
    print(json.dumps(ran))
    if not ok:
        print('NOT CONFIRMED: not kept')
        return 2
    dest = os.path.join(ROOT, 'seeded', name)
    os.makedirs(dest, exist_ok=True)
    patch = sh(f'git -C {wt} diff -- simprocesd').stdout
    open(os.path.join(dest, 'patch.diff'), 'w').write(patch)
    shutil.copy(f'{out}/demo.py', os.path.join(dest, 'demo.py'))
    results = {}
    for c in (checks or [prop]):
        t0 = time.time()
        p = sh(f'./check {c} --tier {tier}', cwd=ROOT, env=dict(os.environ, VERIF_REPO=wt))
        viol = [l for l in p.stdout.splitlines() if l.startswith('VIOLATION')]
        detail = [l.strip() for l in p.stdout.splitlines() if l.startswith('  job=')][:2]
        results[c] = {'tier': tier, 'rc': p.returncode, 'violations': len(viol), 'wall_s': round(time.time() - t0), 'first': detail,
                      'summary': p.stdout.strip().splitlines()[-1][:300] if p.stdout.strip() else ''}
        print(c, results[c])
    meta_out = {'property': prop, 'summary': meta.get('summary'), 'needs': meta.get('needs'), 'files': meta.get('files'),
                'confirmed': ran, 'checks': results,
                'what_i_ran': [f'pytest in {wt} with the change', 'demo.py with and without the change (git apply -R, re-applied afterwards)',
                               f'./check <id> --tier {tier} with VERIF_REPO={wt}']}
    old = os.path.join(dest, 'meta.json')
    if os.path.exists(old):
        prev = json.load(open(old))
        prev_checks = prev.get('checks', {})
        for k, v in prev_checks.items():
            meta_out['checks'].setdefault(k + '@earlier', v)
    json.dump(meta_out, open(old, 'w'), indent=1)
    sh('rm -f replays/*.json', cwd=ROOT)
    return 0


if __name__ == '__main__':
    sys.exit(main())
