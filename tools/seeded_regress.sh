#!/bin/sh
# usage: sh tools/seeded_regress.sh <seeded-name> [pattern] [tier]
# Applies /verif/seeded/<name>/patch.diff to a fresh scratch worktree of /repo (outside /repo and /verif), runs the
# owning check (or only the analyses matching <pattern>) against it and removes the worktree again.
cd "$(dirname "$0")/.." || exit 3
N="$1"; P="${N%%-*}"; W="/tmp/sr-$$-$N"
git -C /repo worktree add -q --detach "$W" HEAD || exit 3
git -C "$W" apply "$(pwd)/seeded/$N/patch.diff" || { git -C /repo worktree remove --force "$W"; exit 3; }
if [ -n "$2" ]; then sh tools/one.sh "$P" "${3:-quick}" "$2" "$W" | grep -v "^    goals"; rc=$?
else VERIF_REPO="$W" ./check "$P" --tier "${3:-quick}" | tail -4; rc=$?; fi
git -C /repo worktree remove --force "$W"; git -C /repo worktree prune
exit $rc
