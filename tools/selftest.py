#!/usr/bin/env python3
"""Mutation self-test: applies each small change (the ones quoted in the properties'
why_tests_cant plus our own) to /repo's working tree, runs the owning check's quick
tier, expects exit 1 with a VIOLATION line, and restores the tree (git checkout).

usage: tools/selftest.py [PROP ...] [--tier quick|thorough] [--only name]
"""
import json
import os
import subprocess
import sys
import time

ROOT = os.path.dirname(os.path.dirname(os.path.abspath(__file__)))
M = 'simprocesd/model/'
FF = M + 'factory_floor/'

# (name, property, file, old, new)
MUTANTS = [
    ('c01-pop-last', 'C01', M + 'simulation.py', 'next_event = self._events.pop(0)', 'next_event = self._events.pop()'),
    ('c01-past-le', 'C01', M + 'simulation.py', 'if time < self.now:', 'if time <= self.now:'),
    ('c01-prio-flip', 'C01', M + 'simulation.py', 'return self.event_type > other.event_type', 'return self.event_type < other.event_type'),
    ('c01-no-clock', 'C01', M + 'simulation.py', '        self._now = next_event.time\n', '        pass\n'),
    ('c01-terminate-late', 'C01', M + 'simulation.py', 'self.schedule_event(self.now + simulation_duration, -1',
     'self.schedule_event(self.now + simulation_duration + 1, -1'),
    ('c01-terminate-prio', 'C01', M + 'simulation.py', 'self._terminate, EventType.TERMINATE)', 'self._terminate, EventType.OTHER_HIGH_PRIORITY)'),
    ('c01-time-flip', 'C01', M + 'simulation.py', 'return self.time < other.time', 'return self.time > other.time'),
    ('c07-sign', 'C07', M + 'simulation.py', 'event.time += self.now - event.paused_at', 'event.time += self.now + event.paused_at'),
    ('c07-restamp', 'C07', M + 'simulation.py', "events_to_pause = [x for x in self._events if x.asset_id == asset_id]",
     "events_to_pause = [x for x in self._events + self._paused_events if x.asset_id == asset_id]\n        self._paused_events = [x for x in self._paused_events if x.asset_id != asset_id]\n        self._events = self._events + [x for x in events_to_pause if x not in self._events]"),
    ('c07-cancel-queued-only', 'C07', M + 'simulation.py', 'x for x in self._events + self._paused_events if x.asset_id == asset_id]\n\n        for event in events_to_cancel',
     'x for x in self._events if x.asset_id == asset_id]\n\n        for event in events_to_cancel'),
    ('c07-unpause-all', 'C07', M + 'simulation.py', 'events_to_unpause = [x for x in self._paused_events if x.asset_id == asset_id]',
     'events_to_unpause = [x for x in self._paused_events]'),
    ('c02-accept-while-busy', 'C02', FF + 'part_processor.py', "        if not super()._can_accept_part(part):\n            return False\n        # Reserving",
     "        if not super(PartHandler, self)._can_accept_part(part):\n            return False\n        # Reserving"),
    ('c02-source-budget', 'C02', FF + 'source.py', 'if self.remaining_parts < 1 or self._output == None:', 'if self.remaining_parts < 0 or self._output == None:'),
    ('c02-clear-before-answer', 'C02', FF + 'part_handler.py', "            if dwn.give_part(self._output):\n                self._output = None\n                self.notify_upstream_of_available_space()\n                return",
     "            out, self._output = self._output, None\n            if dwn.give_part(out):\n                self.notify_upstream_of_available_space()\n                return\n            self._output = None"),
    ('c03-no-check-after-release', 'C03', M + 'resource_manager.py', "            self._record_resource_amount_update(resource_name)\n        self._schedule_check_pending_requesters()\n\n    def _can_fulfill_request",
     "            self._record_resource_amount_update(resource_name)\n\n    def _can_fulfill_request"),
    ('c03-buffer-no-rearm', 'C03', FF + 'buffer.py', "            else:\n                self._waiting_for_downstream_space = True\n", "            else:\n                pass\n"),
    ('c03-notify-on-block', 'C03', FF + 'part_flow_controller.py', "        if not is_blocked:\n            self.notify_upstream_of_available_space()", "        if is_blocked:\n            self.notify_upstream_of_available_space()"),
    ('c03-no-notify-after-restore', 'C03', FF + 'part_processor.py', "        elif self._part == None:\n            self.notify_upstream_of_available_space()", "        elif self._part == None:\n            pass"),
    ('c03-source-no-resume', 'C03', FF + 'source.py', "        if was_empty:\n            self._schedule_pass_part_downstream()", "        if was_empty:\n            pass"),
    ('c05-level-not-decremented', 'C05', FF + 'buffer.py', "                    self._level -= part_count\n", "                    pass\n"),
    ('c05-capacity-off-by-one', 'C05', FF + 'buffer.py', "if self.level() + part_count > self._capacity:", "if self.level() + part_count > self._capacity + 1:"),
    ('c05-lifo', 'C05', FF + 'buffer.py', "        self._buffer.append((self.env.now, self._part))", "        self._buffer.insert(0, (self.env.now, self._part))"),
    ('c05-delay-ignored', 'C05', FF + 'buffer.py', "            if self._remaining_wait_time(self._buffer[0][0]) > min_time_change:\n                break", "            if False:\n                break"),
    ('c06-unpause-sign', 'C06', M + 'simulation.py', 'event.time += self.now - event.paused_at', 'event.time += self.now + event.paused_at'),
    ('c06-offset-not-reset', 'C06', FF + 'part_handler.py', "        self._next_cycle_time_offset = 0\n        if next_cycle_time <= 0:", "        if next_cycle_time <= 0:"),
    ('c06-fail-keeps-timer', 'C06', FF + 'part_processor.py', "        if is_failure:\n            self._env.cancel_matching_events(asset_id = self.id)\n        else:", "        if False:\n            self._env.cancel_matching_events(asset_id = self.id)\n        else:"),
    ('c13-uptime-plus', 'C13', FF + 'part_processor.py', "        self._uptime += self.env.now - self._last_restore", "        self._uptime += self.env.now + self._last_restore"),
    ('c13-callbacks-reversed', 'C13', FF + 'part_processor.py', "        self._set_waiting_for_part(False)\n        for c in self._shutdown_callbacks:", "        self._set_waiting_for_part(False)\n        for c in reversed(self._shutdown_callbacks):"),
    ('c13-restored-reversed', 'C13', FF + 'part_processor.py', "        for c in self._restored_callbacks:", "        for c in reversed(self._restored_callbacks):"),
    ('c13-start-work-no-shutdown', 'C13', FF + 'part_processor.py', "    def start_work(self, tag):\n        self.shutdown()", "    def start_work(self, tag):\n        pass"),
    ('c13-fail-drops-output', 'C13', FF + 'part_processor.py', "        lost_part = self._part\n        self._part = None\n", "        lost_part = self._part\n        self._part = None\n        self._output = None\n"),
    ('c13-util-not-restarted', 'C13', FF + 'part_processor.py', "        if self._part != None:\n            self._last_use_start = self.env.now\n\n        for c in self._restored_callbacks", "        for c in self._restored_callbacks"),
    ('c10-no-check-after-add', 'C10', M + 'resource_manager.py', "            self._record_resource_amount_update(resource_name)\n            self._schedule_check_pending_requesters()\n\n    def reserve_resources",
     "            self._record_resource_amount_update(resource_name)\n\n    def reserve_resources"),
    ('c10-no-check-after-register', 'C10', M + 'resource_manager.py', "        self._waiting_requests.append((copy.deepcopy(request), callback))\n        self._schedule_check_pending_requesters()",
     "        self._waiting_requests.append((copy.deepcopy(request), callback))"),
    ('c10-no-check-after-release', 'C10', M + 'resource_manager.py', "            self._record_resource_amount_update(resource_name)\n        self._schedule_check_pending_requesters()\n\n    def _can_fulfill_request",
     "            self._record_resource_amount_update(resource_name)\n\n    def _can_fulfill_request"),
    ('c10-lifo', 'C10', M + 'resource_manager.py', "self._waiting_requests.append((copy.deepcopy(request), callback))", "self._waiting_requests.insert(0, (copy.deepcopy(request), callback))"),
    ('c10-skip-two', 'C10', M + 'resource_manager.py', "            else:\n                i += 1\n\n    def _release_resources", "            else:\n                i += 2\n\n    def _release_resources"),
    ('c10-no-copy', 'C10', M + 'resource_manager.py', "self._waiting_requests.append((copy.deepcopy(request), callback))", "self._waiting_requests.append((request, callback))"),
    ('c12-lifo', 'C12', FF + 'maintainer.py', "        self._request_queue.append(request)", "        self._request_queue.insert(0, request)"),
    ('c12-wrong-return', 'C12', FF + 'maintainer.py', "        self.try_working_requests()\n        return True", "        self.try_working_requests()\n        return False"),
    ('c12-skip-entries', 'C12', FF + 'maintainer.py', "            else:\n                i += 1\n\n    def _start_work_order", "            else:\n                i += 2\n\n    def _start_work_order"),
    ('c12-not-cleared', 'C12', FF + 'maintainer.py', "        self._active_requests.remove(request)\n", ""),
    ('c12-capacity-strict', 'C12', FF + 'maintainer.py', "if self._utilization <= self._capacity - req.needed_capacity", "if self._utilization < self._capacity - req.needed_capacity"),
    ('c12-no-rescan-on-finish', 'C12', FF + 'maintainer.py', "        self._record_work_order_datapoint('finish_work_order', request)\n\n        self.try_working_requests()", "        self._record_work_order_datapoint('finish_work_order', request)"),
    ('c12-two-on-target', 'C12', FF + 'maintainer.py', "                    and len(other_work_orders) == 0:", "                    and len(other_work_orders) <= 1:"),
    ('c09-neg-capacity', 'C09', M + 'resource_manager.py', 'if amount < 0 and max_available + amount < 0:', 'if amount < 0 and max_available + amount < -1:'),
    ('c09-skip-check-1', 'C09', M + 'resource_manager.py', 'if self._reserved_resources[resource_name] < amount:',
     'if amount != 1 and self._reserved_resources[resource_name] < amount:'),
    ('c09-merge-keep', 'C09', M + 'resource_manager.py', '        reserved_resources._reserved_resources = {}\n', '        pass\n'),
]


def run(cmd, **kw):
    return subprocess.run(cmd, shell=True, capture_output=True, text=True, **kw)


def main():
    args = sys.argv[1:]
    tier = 'quick'
    only = None
    if '--tier' in args:
        i = args.index('--tier')
        tier = args[i + 1]
        del args[i:i + 2]
    if '--only' in args:
        i = args.index('--only')
        only = args[i + 1]
        del args[i:i + 2]
    props = set(args)
    # mutants are applied to a scratch worktree of /repo's HEAD (outside /repo and /verif), removed at the end
    scratch = f'/tmp/selftest-{os.getpid()}'
    run(f'git -C /repo worktree add --detach {scratch} HEAD')
    os.environ['VERIF_REPO'] = scratch
    try:
        return _main(args, tier, only, props, scratch)
    finally:
        run(f'git -C /repo worktree remove --force {scratch}')
        run('git -C /repo worktree prune')


def _main(args, tier, only, props, scratch):
    results = []
    for name, prop, path, old, new in MUTANTS:
        if (props and prop not in props) or (only and only != name):
            continue
        full = os.path.join(scratch, path)
        src = open(full).read()
        if src.count(old) != 1:
            print(f'{name}: pattern occurs {src.count(old)} times, skipped')
            results.append((name, prop, 'pattern-missing'))
            continue
        try:
            open(full, 'w').write(src.replace(old, new))
            t0 = time.time()
            p = run(f'./check {prop} --tier {tier}', cwd=ROOT)
            viol = [l for l in p.stdout.splitlines() if l.startswith('VIOLATION')]
            verdict = 'killed' if p.returncode == 1 and viol else f'SURVIVED(rc={p.returncode})'
            print(f'{name}: {verdict} in {time.time() - t0:.0f}s', (viol[:1] + p.stdout.splitlines()[-1:]))
            results.append((name, prop, verdict))
        finally:
            run(f'git -C {scratch} checkout -- .')
    json.dump(results, open(os.path.join(ROOT, 'tools', 'selftest_last.json'), 'w'), indent=1)
    return 0 if all(r[2] == 'killed' for r in results) else 1


if __name__ == '__main__':
    sys.exit(main())
