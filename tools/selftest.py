#!/usr/bin/env python3
"""Mutation self-test: applies each small change (the ones quoted in the properties'
why_tests_cant plus our own) to /repo's working tree, runs the owning check's quick
tier, expects exit 1 with a VIOLATION line, and restores the tree (git checkout).

usage: tools/selftest.py [PROP ...] [--tier quick|thorough] [--only name]
"""
import json
import os
import subprocess
import sys
import time

ROOT = os.path.dirname(os.path.dirname(os.path.abspath(__file__)))
M = 'simprocesd/model/'
FF = M + 'factory_floor/'

# (name, property, file, old, new)
MUTANTS = [
    ('c01-pop-last', 'C01', M + 'simulation.py', 'next_event = self._events.pop(0)', 'next_event = self._events.pop()'),
    ('c01-past-le', 'C01', M + 'simulation.py', 'if time < self.now:', 'if time <= self.now:'),
    ('c01-prio-flip', 'C01', M + 'simulation.py', 'return self.event_type > other.event_type', 'return self.event_type < other.event_type'),
    ('c01-no-clock', 'C01', M + 'simulation.py', '        self._now = next_event.time\n', '        pass\n'),
    ('c01-terminate-late', 'C01', M + 'simulation.py', 'self.schedule_event(self.now + simulation_duration, -1',
     'self.schedule_event(self.now + simulation_duration + 1, -1'),
    ('c01-terminate-prio', 'C01', M + 'simulation.py', 'self._terminate, EventType.TERMINATE)', 'self._terminate, EventType.OTHER_HIGH_PRIORITY)'),
    ('c01-time-flip', 'C01', M + 'simulation.py', 'return self.time < other.time', 'return self.time > other.time'),
    ('c07-sign', 'C07', M + 'simulation.py', 'event.time += self.now - event.paused_at', 'event.time += self.now + event.paused_at'),
    ('c07-restamp', 'C07', M + 'simulation.py', "events_to_pause = [x for x in self._events if x.asset_id == asset_id]",
     "events_to_pause = [x for x in self._events + self._paused_events if x.asset_id == asset_id]\n        self._paused_events = [x for x in self._paused_events if x.asset_id != asset_id]\n        self._events = self._events + [x for x in events_to_pause if x not in self._events]"),
    ('c07-cancel-queued-only', 'C07', M + 'simulation.py', 'x for x in self._events + self._paused_events if x.asset_id == asset_id]\n\n        for event in events_to_cancel',
     'x for x in self._events if x.asset_id == asset_id]\n\n        for event in events_to_cancel'),
    ('c07-unpause-all', 'C07', M + 'simulation.py', 'events_to_unpause = [x for x in self._paused_events if x.asset_id == asset_id]',
     'events_to_unpause = [x for x in self._paused_events]'),
    ('c09-neg-capacity', 'C09', M + 'resource_manager.py', 'if amount < 0 and max_available + amount < 0:', 'if amount < 0 and max_available + amount < -1:'),
    ('c09-skip-check-1', 'C09', M + 'resource_manager.py', 'if self._reserved_resources[resource_name] < amount:',
     'if amount != 1 and self._reserved_resources[resource_name] < amount:'),
    ('c09-merge-keep', 'C09', M + 'resource_manager.py', '        reserved_resources._reserved_resources = {}\n', '        pass\n'),
]


def run(cmd, **kw):
    return subprocess.run(cmd, shell=True, capture_output=True, text=True, **kw)


def main():
    args = sys.argv[1:]
    tier = 'quick'
    only = None
    if '--tier' in args:
        i = args.index('--tier')
        tier = args[i + 1]
        del args[i:i + 2]
    if '--only' in args:
        i = args.index('--only')
        only = args[i + 1]
        del args[i:i + 2]
    props = set(args)
    # mutants are applied to a scratch worktree of /repo's HEAD (outside /repo and /verif), removed at the end
    scratch = f'/tmp/selftest-{os.getpid()}'
    run(f'git -C /repo worktree add --detach {scratch} HEAD')
    os.environ['VERIF_REPO'] = scratch
    try:
        return _main(args, tier, only, props, scratch)
    finally:
        run(f'git -C /repo worktree remove --force {scratch}')
        run('git -C /repo worktree prune')


def _main(args, tier, only, props, scratch):
    results = []
    for name, prop, path, old, new in MUTANTS:
        if (props and prop not in props) or (only and only != name):
            continue
        full = os.path.join(scratch, path)
        src = open(full).read()
        if src.count(old) != 1:
            print(f'{name}: pattern occurs {src.count(old)} times, skipped')
            results.append((name, prop, 'pattern-missing'))
            continue
        try:
            open(full, 'w').write(src.replace(old, new))
            t0 = time.time()
            p = run(f'./check {prop} --tier {tier}', cwd=ROOT)
            viol = [l for l in p.stdout.splitlines() if l.startswith('VIOLATION')]
            verdict = 'killed' if p.returncode == 1 and viol else f'SURVIVED(rc={p.returncode})'
            print(f'{name}: {verdict} in {time.time() - t0:.0f}s', (viol[:1] + p.stdout.splitlines()[-1:]))
            results.append((name, prop, verdict))
        finally:
            run(f'git -C {scratch} checkout -- .')
    json.dump(results, open(os.path.join(ROOT, 'tools', 'selftest_last.json'), 'w'), indent=1)
    return 0 if all(r[2] == 'killed' for r in results) else 1


if __name__ == '__main__':
    sys.exit(main())
